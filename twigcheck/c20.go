package main

// C20 — attribute access returns the right member whatever was looked up before.
//
// R20.1 the memo key is the whole lookup: every attributeCacheKey literal sets every field, the
//       key struct is comparable and used directly as the map key.
// R20.2 a struct field is reached by its full index path: reflect.StructField.Index is never
//       indexed with a constant (Index[0]); it is passed whole to FieldByIndex(Err).
// R20.3 cached lookup data is a pure function of the key: the backward slice of every store into
//       a lookup field of a cache entry contains only the value stored into key.typ, the value
//       stored into key.attr, constants and reflect.Type methods.
// R20.4 eviction only forgets: every write to the cache map is a delete, an insert of an entry
//       computed under R20.3 for that same key, or a read-modify-write under the same key that
//       touches statistics fields only.
// R20.5 the dynamic type decides: key.typ is obtained by Type() from the very reflect.Value that
//       is used for the field access.

import (
	"fmt"
	"go/ast"
	"go/types"
	"sort"
	"strings"

	"golang.org/x/tools/go/ssa"
)

func init() { register("C20", checkC20) }

var statFields = map[string]bool{"lastAccess": true, "accessCount": true}

func checkC20(w *World, r *Report) {
	r.Explanation = "Decides that the attribute cache and its eviction are unobservable, for every history of lookups: (R20.1) the cache key literal sets all fields (dynamic type and attribute name) and is used as the map key itself; (R20.2) a field found by FieldByName is reached through its whole index path, never through Index[0]; (R20.3) every lookup field stored in a cache entry is computed only from the key's type and name through side-effect-free reflect.Type methods — not from the object value, other entries or time; (R20.4) every other write to the cache map is a delete or a statistics-only update of the entry read under the same key; (R20.5) the key's type comes from the same reflect.Value that serves the access. Together: a hit returns what a miss would compute. Not decided: that reflect's FieldByName/MethodByName implement 'exported field incl. promoted / zero-argument method' (trusted stdlib); getItem's key conversions."
	r.Explanation += " Rules added in later rounds: (R20.7) resolved lookups are held, by package-level variables and stateful types, only as values of map[attributeCacheKey]. (R20.4) a statistics update needs a hit."
	r.Explanation += " Round 9: (R20.8) the resolver of x.name reaches reflect.Value.MapIndex: attribute access on maps of any type is a key lookup."
	r.Explanation += " Round 10: (R20.9) map keys do not come from conversions whose failure is ignored."
	r.Explanation += " Round 13: (R20.10) typed map lookups that become template values see absence."
	r.RuleText = "obligation = one key literal / StructField.Index use / store into an entry field / write to the cache map; non-trivial = all but constant stores"
	r.Trusted = []string{"reflect.Type methods are pure functions of the type", "reflect.Value.FieldByIndex follows the whole path"}

	keyT := w.named("attributeCacheKey")
	entryT := w.named("attributeCacheEntry")
	keySt := keyT.Underlying().(*types.Struct)
	if !types.Comparable(keyT) {
		r.bad("R20.1", "(type attributeCacheKey)", "comparable key", "-", "the cache key type is not comparable")
	}
	// the cache map's key type is the struct itself
	cacheVar, _ := w.lookup("attributeCache").(*types.Var)
	if cacheVar == nil {
		cannotDecide("anchor attributeCache is not a variable")
	}
	cst, ok := cacheVar.Type().Underlying().(*types.Struct)
	if !ok {
		cannotDecide("attributeCache is not a struct")
	}
	var cacheMapField string
	for i := 0; i < cst.NumFields(); i++ {
		if m, ok := cst.Field(i).Type().Underlying().(*types.Map); ok {
			cacheMapField = cst.Field(i).Name()
			if types.Identical(m.Key(), keyT) && types.Identical(m.Elem(), entryT) {
				r.ok("R20.1", "(var attributeCache)", "map keyed by the whole key struct", "-", "map[attributeCacheKey]attributeCacheEntry", false)
			} else {
				r.bad("R20.1", "(var attributeCache)", "map keyed by the whole key struct", "-", "the cache map is keyed by "+m.Key().String()+", not by the (type, attribute) key struct")
			}
		}
	}
	if cacheMapField == "" {
		cannotDecide("attributeCache has no map field")
	}
	// key fields: must contain a reflect.Type and a string
	hasType, hasStr := false, false
	for i := 0; i < keySt.NumFields(); i++ {
		if isNamed(keySt.Field(i).Type(), "reflect", "Type") {
			hasType = true
		}
		if types.Identical(keySt.Field(i).Type(), types.Typ[types.String]) {
			hasStr = true
		}
	}
	if hasType && hasStr {
		r.ok("R20.1", "(type attributeCacheKey)", "key holds the dynamic type and the attribute name", "-", "fields of type reflect.Type and string", false)
	} else {
		r.bad("R20.1", "(type attributeCacheKey)", "key holds the dynamic type and the attribute name", "-", "the key struct lacks a reflect.Type or a string field: distinct lookups share a cache slot")
	}

	// ---- R20.1 literals, R20.2 Index uses (AST)
	nLit, nIdx := 0, 0
	for _, fd := range w.sortedDecls() {
		fname := w.declName(fd)
		ast.Inspect(fd.Body, func(n ast.Node) bool {
			switch x := n.(type) {
			case *ast.CompositeLit:
				if tv, ok := w.Info.Types[x]; ok && types.Identical(tv.Type, keyT) {
					nLit++
					set := map[string]bool{}
					positional := false
					for _, el := range x.Elts {
						if kv, ok := el.(*ast.KeyValueExpr); ok {
							set[kv.Key.(*ast.Ident).Name] = true
						} else {
							positional = true
						}
					}
					complete := positional && len(x.Elts) == keySt.NumFields()
					if !positional {
						complete = len(set) == keySt.NumFields()
					}
					if complete {
						r.ok("R20.1", fname, "attributeCacheKey literal", w.pos(x), "every field set", true)
					} else {
						r.bad("R20.1", fname, "attributeCacheKey literal", w.pos(x), "the cache key literal leaves a field at its zero value: lookups that differ in that field share one cache slot")
					}
				}
			case *ast.SelectorExpr:
				if x.Sel.Name != "Index" || !isNamed(w.Info.TypeOf(x.X), "reflect", "StructField") {
					return true
				}
				nIdx++
				construct := "use of StructField.Index"
				switch par := w.parents[x].(type) {
				case *ast.IndexExpr:
					if par.X == x {
						r.bad("R20.2", fname, construct, w.pos(x), "only one element of the field's index path is used: a field promoted from an embedded struct resolves to the embedded struct itself")
						return true
					}
				case *ast.SliceExpr:
					if par.X == x {
						r.bad("R20.2", fname, construct, w.pos(x), "the field's index path is truncated")
						return true
					}
				}
				r.ok("R20.2", fname, construct, w.pos(x), "the whole index path is kept", true)
			}
			return true
		})
	}
	r.floor("attributeCacheKey literals", nLit, 1)
	r.floor("uses of reflect.StructField.Index", nIdx, 1)

	// ---- R20.3 / R20.4 / R20.5 (SSA)
	_, sp := w.ssa()
	cacheG := sp.Var("attributeCache")
	cacheT := deref(cacheG.Type())
	isCacheMap := func(v ssa.Value) bool {
		u, ok := v.(*ssa.UnOp)
		if !ok {
			return false
		}
		fa, ok := u.X.(*ssa.FieldAddr)
		if !ok {
			return false
		}
		if fa.X == ssa.Value(cacheG) {
			return true
		}
		// through the receiver of a method of the cache's (named) type
		if _, isNamedT := cacheT.(*types.Named); isNamedT && types.Identical(deref(fa.X.Type()), cacheT) {
			if _, isMap := deref(fa.Type()).Underlying().(*types.Map); isMap {
				return true
			}
		}
		return false
	}
	nWrites := 0
	for _, fn := range w.pkgFuncs() {
		var updates []*ssa.MapUpdate
		instrsOf(fn, func(in ssa.Instruction) {
			if mu, ok := in.(*ssa.MapUpdate); ok && isCacheMap(mu.Map) {
				updates = append(updates, mu)
			}
			if c, ok := in.(*ssa.Call); ok {
				if b, ok := c.Call.Value.(*ssa.Builtin); ok && b.Name() == "delete" && isCacheMap(c.Call.Args[0]) {
					nWrites++
					r.ok("R20.4", ssaName(fn), "delete from the cache map", w.posOf(in.Pos()), "eviction only forgets", false)
				}
			}
		})
		for _, mu := range updates {
			nWrites++
			w.checkCacheUpdate(r, fn, mu, isCacheMap)
		}
	}
	r.floor("writes to the attribute cache map", nWrites, 3)
	w.checkKeyedAccess(r, keyT)
	w.checkEntriesOnlyUnderKeys(r, keyT, entryT)
	w.checkAttributeAccessCoversMaps(r, keyT)
	checkMapKeysAreChecked(w, r)
	checkTypedMapLookupsSeeAbsence(w, r)
}

// keyRef: the cache key as one function sees it — a local literal (typ/attr = the values stored
// into its fields) or a parameter of the key type (possibly spilled to a local slot by go/ssa).
type keyRef struct {
	alloc     *ssa.Alloc
	param     *ssa.Parameter
	typ, attr ssa.Value
}

func resolveKey(key ssa.Value) *keyRef {
	if p, ok := key.(*ssa.Parameter); ok {
		return &keyRef{param: p}
	}
	u, ok := key.(*ssa.UnOp)
	if !ok {
		return nil
	}
	al, ok := u.X.(*ssa.Alloc)
	if !ok || al.Referrers() == nil {
		return nil
	}
	if p := spilledParam(al); p != nil {
		return &keyRef{alloc: al, param: p}
	}
	k := &keyRef{alloc: al}
	for _, ref := range *al.Referrers() {
		fa, ok := ref.(*ssa.FieldAddr)
		if !ok || fa.Referrers() == nil {
			continue
		}
		for _, r2 := range *fa.Referrers() {
			if st, ok := r2.(*ssa.Store); ok && st.Addr == fa {
				if isNamed(st.Val.Type(), "reflect", "Type") {
					k.typ = st.Val
				} else if types.Identical(st.Val.Type(), types.Typ[types.String]) {
					k.attr = st.Val
				}
			}
		}
	}
	if k.typ == nil || k.attr == nil {
		return nil
	}
	return k
}

// spilledParam: the local is the spill slot of a parameter: one whole store (of the parameter),
// otherwise only loads and field addresses that are only loaded from.
func spilledParam(al *ssa.Alloc) *ssa.Parameter {
	var p *ssa.Parameter
	for _, ref := range *al.Referrers() {
		switch x := ref.(type) {
		case *ssa.Store:
			pp, ok := x.Val.(*ssa.Parameter)
			if !ok || x.Addr != al || p != nil {
				return nil
			}
			p = pp
		case *ssa.UnOp, *ssa.DebugRef:
		case *ssa.FieldAddr:
			if x.Referrers() != nil {
				for _, r2 := range *x.Referrers() {
					switch r2.(type) {
					case *ssa.UnOp, *ssa.DebugRef:
					default:
						return nil
					}
				}
			}
		default:
			return nil
		}
	}
	return p
}

// sameKey: v denotes this key as a whole.
func (k *keyRef) sameKey(v ssa.Value) bool {
	if k.param != nil && v == ssa.Value(k.param) {
		return true
	}
	if u, ok := v.(*ssa.UnOp); ok && k.alloc != nil && u.X == ssa.Value(k.alloc) {
		return true
	}
	return false
}

// isPart: v is one of the key's components.
func (k *keyRef) isPart(v ssa.Value) bool {
	if k.typ != nil && (sameValue(v, k.typ) || sameValue(v, k.attr)) {
		return true
	}
	switch x := v.(type) {
	case *ssa.Field:
		return k.sameKey(x.X)
	case *ssa.UnOp:
		if fa, ok := x.X.(*ssa.FieldAddr); ok && k.alloc != nil && fa.X == ssa.Value(k.alloc) {
			return true
		}
	}
	return k.sameKey(v)
}

// entryPurity checks every store into a lookup field of the entry local (R20.3): the stored value
// and the conditions deciding whether the store happens depend on the key parts alone.
func (w *World) entryPurity(r *Report, fn *ssa.Function, eAlloc *ssa.Alloc, isPart func(ssa.Value) bool, conds func(*ssa.Store) []ssa.Value) (nLookupStores int, impure string) {
	fieldStores := map[string][]*ssa.Store{}
	var names []string
	for _, ref := range *eAlloc.Referrers() {
		fa, ok := ref.(*ssa.FieldAddr)
		if !ok || fa.Referrers() == nil {
			continue
		}
		_, f := fieldOfAddr(fa)
		for _, r2 := range *fa.Referrers() {
			if st, ok := r2.(*ssa.Store); ok && st.Addr == fa {
				if len(fieldStores[f]) == 0 {
					names = append(names, f)
				}
				fieldStores[f] = append(fieldStores[f], st)
			}
		}
	}
	sort.Strings(names)
	for _, f := range names {
		if statFields[f] {
			continue
		}
		for _, st := range fieldStores[f] {
			nLookupStores++
			if why := impureSource(st.Val, isPart, map[ssa.Value]bool{}, 0); why != "" {
				impure = fmt.Sprintf("field %s is computed from %s (%s)", f, why, w.posOf(st.Pos()))
				r.bad("R20.3", ssaName(fn), "store entry."+f, w.posOf(st.Pos()), "cached lookup data does not depend on the key alone: "+why+" — a later lookup with the same (type, name) can be answered with data computed for a different object or at a different time")
			} else {
				r.ok("R20.3", ssaName(fn), "store entry."+f, w.posOf(st.Pos()), "computed from key.typ / key.attr / constants through reflect.Type methods only", true)
			}
			// control dependence: the branch conditions that decide which lookup-field stores
			// execute must depend on the key alone as well (an entry filled differently for a value
			// and for a pointer of the same struct type makes the answer depend on who asked first)
			for _, cond := range conds(st) {
				if why := impureSource(cond, isPart, map[ssa.Value]bool{}, 0); why != "" {
					impure = fmt.Sprintf("whether field %s is set depends on %s", f, why)
					r.bad("R20.3", ssaName(fn), "condition controlling the store of entry."+f, w.posOf(st.Pos()), "what is cached under a (type, name) key is decided by a condition that does not depend on the key alone: "+why+" — the cached answer depends on which object was looked up first")
				}
			}
		}
	}
	return
}

// pureEntryFunc: a helper that builds a cache entry from its parameters alone: every return is a
// local entry whose lookup fields (and the conditions controlling their stores) depend only on
// the parameters.  Reports the helper's stores as R20.3 obligations (once).
func (w *World) pureEntryFunc(r *Report, g *ssa.Function) (ok bool, nStores int, impure string) {
	if w.entryFuncMemo == nil {
		w.entryFuncMemo = map[*ssa.Function][3]interface{}{}
	}
	if m, done := w.entryFuncMemo[g]; done {
		return m[0].(bool), m[1].(int), m[2].(string)
	}
	defer func() { w.entryFuncMemo[g] = [3]interface{}{ok, nStores, impure} }()
	if len(g.Blocks) == 0 {
		return false, 0, ""
	}
	isPart := func(v ssa.Value) bool {
		v = unspill(v)
		_, isP := v.(*ssa.Parameter)
		return isP
	}
	ok = true
	seenAlloc := map[*ssa.Alloc]bool{}
	instrsOf(g, func(in ssa.Instruction) {
		ret, isRet := in.(*ssa.Return)
		if !isRet || !ok {
			return
		}
		res := retResults(ret)
		if len(res) != 1 {
			ok = false
			return
		}
		u, isU := res[0].(*ssa.UnOp)
		if !isU {
			ok = false
			return
		}
		al, isA := u.X.(*ssa.Alloc)
		if !isA || al.Referrers() == nil {
			ok = false
			return
		}
		// the local must not be assigned as a whole from anywhere
		for _, ref := range *al.Referrers() {
			if st, isSt := ref.(*ssa.Store); isSt && st.Addr == al {
				ok = false
				return
			}
		}
		if seenAlloc[al] {
			return
		}
		seenAlloc[al] = true
		n, imp := w.entryPurity(r, g, al, isPart, func(st *ssa.Store) []ssa.Value { return controllingConds(st) })
		nStores += n
		if imp != "" {
			impure = imp
		}
	})
	return
}

func (w *World) checkCacheUpdate(r *Report, fn *ssa.Function, mu *ssa.MapUpdate, isCacheMap func(ssa.Value) bool) {
	pos := w.posOf(mu.Pos())
	k := resolveKey(mu.Key)
	if k == nil {
		r.bad("R20.4", ssaName(fn), "write to the cache map", pos, "the key written to the attribute cache cannot be traced to a (type, name) key (local literal or parameter)")
		return
	}
	hit := func(v ssa.Value) bool { return isCacheHitTest(v, isCacheMap, k) }
	// classify what the written entry can be: through phis and locals down to lookups under a
	// key, entry-building helpers, and locals filled field by field
	var fromLookup, fromHelper, other int
	missRead := ""
	lookupKeyOK := true
	impure := ""
	nLookupStores := 0
	seen := map[ssa.Value]bool{}
	seenAlloc := map[*ssa.Alloc]bool{}
	var classify func(v ssa.Value, at ssa.Instruction)
	classify = func(v ssa.Value, at ssa.Instruction) {
		if seen[v] {
			return
		}
		seen[v] = true
		src := v
		if ex, ok := src.(*ssa.Extract); ok {
			src = ex.Tuple
		}
		switch x := src.(type) {
		case *ssa.Lookup:
			if isCacheMap(x.X) {
				fromLookup++
				if !k.sameKey(x.Index) {
					lookupKeyOK = false
				}
				// the read must have been a hit: a comma-ok lookup whose true edge dominates the
				// write (a plain m[key] yields the zero entry for a key that was never stored or
				// has just been evicted, and storing that back caches "no such member")
				isHit := false
				if x.CommaOk && x.Referrers() != nil {
					for _, ref := range *x.Referrers() {
						ex, ok := ref.(*ssa.Extract)
						if !ok || ex.Index != 1 || ex.Referrers() == nil {
							continue
						}
						for _, b := range fn.Blocks {
							cv, trueIdx, ok := ifCond(b)
							if !ok || cv != ssa.Value(ex) {
								continue
							}
							t := b.Succs[trueIdx]
							if len(t.Preds) == 1 && (t == mu.Block() || t.Dominates(mu.Block())) {
								isHit = true
							}
						}
					}
				}
				if !isHit {
					missRead = w.posOf(x.Pos())
				}
				return
			}
		case *ssa.Phi:
			for _, e := range x.Edges {
				classify(e, at)
			}
			return
		case *ssa.Call:
			g := x.Call.StaticCallee()
			if g != nil && isTwigFn(g) {
				fromHelper++
				okG, n, imp := w.pureEntryFunc(r, g)
				nLookupStores += n
				if !okG {
					impure = "the entry is built by " + g.Name() + ", whose result cannot be traced to a local entry filled from its parameters"
				} else if imp != "" {
					impure = "in " + g.Name() + ": " + imp
				}
				for _, a := range x.Call.Args {
					if why := impureSource(a, k.isPart, map[ssa.Value]bool{}, 0); why != "" {
						impure = fmt.Sprintf("%s is called with %s", g.Name(), why)
						r.bad("R20.3", ssaName(fn), "argument of the entry builder "+g.Name(), w.posOf(x.Pos()), "cached lookup data does not depend on the key alone: the entry is built from "+why)
					}
				}
				// the conditions deciding whether the helper's entry is stored
				for _, cond := range controllingCondsBelow(x, hit) {
					if why := impureSource(cond, k.isPart, map[ssa.Value]bool{}, 0); why != "" {
						impure = "whether the entry is rebuilt depends on " + why
						r.bad("R20.3", ssaName(fn), "condition controlling the entry builder "+g.Name(), w.posOf(x.Pos()), "what is cached under a (type, name) key is decided by a condition that does not depend on the key alone: "+why)
					}
				}
				return
			}
		case *ssa.UnOp:
			if al, ok := x.X.(*ssa.Alloc); ok && al.Referrers() != nil {
				if seenAlloc[al] {
					return
				}
				seenAlloc[al] = true
				whole := 0
				for _, ref := range *al.Referrers() {
					if st, ok := ref.(*ssa.Store); ok && st.Addr == al {
						whole++
						classify(st.Val, st)
					}
				}
				n, imp := w.entryPurity(r, fn, al, k.isPart, func(st *ssa.Store) []ssa.Value { return controllingCondsBelow(st, hit) })
				nLookupStores += n
				if imp != "" {
					impure = imp
				}
				// lookup data of an entry that was read from the cache is never changed: a store
				// into a lookup field whose reaching whole-value assignment is a cache lookup
				// rewrites what a (type, name) key means on the strength of one object
				if where := modifiesLookedUpEntry(al, isCacheMap); where != nil {
					_, fld := fieldOfAddr(where.Addr.(*ssa.FieldAddr))
					impure = "lookup field " + fld + " of an entry read from the cache is overwritten (" + w.posOf(where.Pos()) + ")"
					r.bad("R20.3", ssaName(fn), "store entry."+fld+" on an entry read from the cache", w.posOf(where.Pos()), "the lookup data cached under a (type, name) key is changed after the fact, in a branch reached for one particular object (an unreadable field, a nil embedded pointer): every later lookup of that attribute on any value of the type gets the changed answer")
				}
				if whole == 0 && n == 0 {
					other++ // a zero entry with statistics only
				}
				return
			}
		}
		other++
	}
	classify(mu.Value, mu)
	inserts := nLookupStores > 0 || fromHelper > 0
	switch {
	case fromLookup > 0 && !inserts && lookupKeyOK && missRead != "":
		r.bad("R20.4", ssaName(fn), "write to the cache map (statistics update)", pos, "the entry stored back was read at "+missRead+" without establishing that the key was present (no comma-ok test whose true edge dominates this write): for a key that is absent at that moment — never stored, or evicted a moment ago — the zero entry is written, and every later lookup of that attribute on that type finds \"neither field nor method\"")
	case fromLookup > 0 && !inserts && lookupKeyOK:
		r.ok("R20.4", ssaName(fn), "write to the cache map (statistics update)", pos, "entry read under the same key, only statistics fields assigned, stored back under the same key", true)
	case fromLookup > 0 && !inserts:
		r.bad("R20.4", ssaName(fn), "write to the cache map (statistics update)", pos, "an entry read under one key is stored under another key")
	case inserts && impure == "" && lookupKeyOK:
		r.ok("R20.4", ssaName(fn), "write to the cache map (insert)", pos, "entry computed from this key only", true)
	case inserts && impure == "":
		r.bad("R20.4", ssaName(fn), "write to the cache map (insert)", pos, "an entry read under one key is stored under another key")
	case inserts:
		r.bad("R20.4", ssaName(fn), "write to the cache map (insert)", pos, "inserted entry is not a pure function of its key: "+impure)
	default:
		r.bad("R20.4", ssaName(fn), "write to the cache map", pos, "the written entry is neither a statistics update of the entry read under the same key nor an entry computed from the key")
	}
}

// keyLiteralValue: if fn builds a cache key literal whose type component is V.Type(), return V
// (the reflect.Value whose dynamic type keys the cache) and the typ value.
func keyLiterals(fn *ssa.Function, keyT types.Type) (lits []*keyRef) {
	instrsOf(fn, func(in ssa.Instruction) {
		al, ok := in.(*ssa.Alloc)
		if !ok || !types.Identical(deref(al.Type()), keyT) {
			return
		}
		if al.Referrers() == nil || spilledParam(al) != nil {
			return
		}
		k := &keyRef{alloc: al}
		for _, ref := range *al.Referrers() {
			fa, ok := ref.(*ssa.FieldAddr)
			if !ok || fa.Referrers() == nil {
				continue
			}
			for _, r2 := range *fa.Referrers() {
				if st, ok := r2.(*ssa.Store); ok && st.Addr == fa {
					if isNamed(st.Val.Type(), "reflect", "Type") {
						k.typ = st.Val
					} else if types.Identical(st.Val.Type(), types.Typ[types.String]) {
						k.attr = st.Val
					}
				}
			}
		}
		if k.typ != nil {
			lits = append(lits, k)
		}
	})
	return
}

// keyValuesOf: the reflect.Values whose Type() is stored as the key's type component — followed
// through local struct fields and, when the key is built in a helper, through the helper's
// parameter to every caller.  nil if some source is not V.Type().
func keyValuesOf(typ ssa.Value, depth int) []ssa.Value {
	t := origin(typ)
	if c, ok := t.(*ssa.Call); ok && isFunc(calleeFunc(c), "reflect", "Value", "Type") {
		return []ssa.Value{origin(c.Call.Args[0])}
	}
	if p, field, ok := paramOrigin(t); ok && depth < 3 {
		cvs, ok := callerValues(p, field)
		if !ok {
			return nil
		}
		var out []ssa.Value
		for _, cv := range cvs {
			vs := keyValuesOf(cv.val, depth+1)
			if vs == nil {
				return nil
			}
			out = append(out, vs...)
		}
		return out
	}
	return nil
}

// checkKeyedAccess — R20.5 and R20.6, anchored at the functions that build a key literal and at
// every use of a cached index, wherever a refactoring has put them.
func (w *World) checkKeyedAccess(r *Report, keyT types.Type) {
	var keyVals []ssa.Value
	isKeyVal := func(v ssa.Value) bool {
		for _, kv := range keyVals {
			if sameReflect(v, kv) {
				return true
			}
		}
		return false
	}
	isNamedField := func(v ssa.Value, name string) bool {
		switch x := v.(type) {
		case *ssa.UnOp:
			if fa, ok := x.X.(*ssa.FieldAddr); ok {
				_, f := fieldOfAddr(fa)
				return f == name
			}
		case *ssa.Field:
			if st, ok := x.X.Type().Underlying().(*types.Struct); ok && x.Field < st.NumFields() {
				return st.Field(x.Field).Name() == name
			}
		}
		return false
	}
	nLitFns := 0
	litFn := map[*ssa.Function]*keyRef{}
	for _, fn := range w.pkgFuncs() {
		lits := keyLiterals(fn, keyT)
		if len(lits) == 0 {
			continue
		}
		nLitFns++
		k := lits[0]
		vs := keyValuesOf(k.typ, 0)
		if vs == nil {
			r.bad("R20.5", ssaName(fn), "key.typ is the dynamic type of the accessed value", w.posOf(k.typ.Pos()), "the cache key's type is not obtained by Type() from a reflect.Value")
			continue
		}
		litFn[fn] = k
		keyVals = append(keyVals, vs...)
	}
	// R20.5: every field access in a key-building function, and every access by a cached field
	// index anywhere, goes through a reflect.Value whose Type() keys the cache
	nAcc := 0
	for _, fn := range w.pkgFuncs() {
		k := litFn[fn]
		n, badAcc := 0, ""
		instrsOf(fn, func(in ssa.Instruction) {
			c, ok := in.(*ssa.Call)
			if !ok {
				return
			}
			f := calleeFunc(c)
			if f == nil || f.Pkg() == nil || f.Pkg().Path() != "reflect" {
				return
			}
			switch f.Name() {
			case "Field", "FieldByIndex", "FieldByIndexErr", "FieldByName":
				if !isNamed(c.Call.Args[0].Type(), "reflect", "Value") {
					return
				}
				byCachedIndex := len(c.Call.Args) > 1 && isNamedField(unspill(c.Call.Args[1]), "fieldIndex")
				if !byCachedIndex && len(c.Call.Args) > 1 {
					// the cached index handed to a helper: at every call site it is entry.fieldIndex
					if p, field, ok := paramOrigin(unspill(c.Call.Args[1])); ok {
						if cvs, ok := callerValues(p, field); ok && len(cvs) > 0 {
							byCachedIndex = true
							for _, cv := range cvs {
								if !isNamedField(unspill(cv.val), "fieldIndex") {
									byCachedIndex = false
								}
							}
						}
					}
				}
				if k == nil && !byCachedIndex {
					return
				}
				n++
				keyed := isKeyVal(c.Call.Args[0])
				if !keyed {
					// the Value handed to a helper (as a parameter or as a field of a record): at
					// every call site it is a Value whose Type() keys the cache
					if p, field, ok := paramOrigin(unspill(c.Call.Args[0])); ok {
						if cvs, ok := callerValues(p, field); ok && len(cvs) > 0 {
							keyed = true
							for _, cv := range cvs {
								if !isKeyVal(cv.val) {
									keyed = false
								}
							}
						}
					}
				}
				if !keyed {
					badAcc = w.posOf(in.Pos())
				}
			}
		})
		nAcc += n
		if n > 0 && badAcc == "" {
			r.ok("R20.5", ssaName(fn), "key.typ is the dynamic type of the accessed value", w.posOf(fn.Pos()), fmt.Sprintf("%d field access(es) go through the reflect.Value whose Type() is the key", n), true)
		} else if badAcc != "" {
			r.bad("R20.5", ssaName(fn), "key.typ is the dynamic type of the accessed value", badAcc, "a field is read from a reflect.Value other than the one whose type keys the cache (index computed for one type applied to another)")
		}
	}
	r.floor("functions building a cache key from a reflect.Value", nLitFns, 1)
	r.floor("field accesses through the keyed reflect.Value", nAcc, 1)

	// R20.6: a cached method index is applied to the method set it was computed for
	nMeth := 0
	for _, fn := range w.pkgFuncs() {
		flagFlow := func(want bool) *boolFlow {
			fl := &boolFlow{fn: fn, entry: false}
			fl.edge = func(b *ssa.BasicBlock, i int) bool {
				return anyEdgeFact(b, i, func(v ssa.Value, trueIdx int) bool {
					if !isNamedField(v, "ptrMethod") {
						return false
					}
					return (i == trueIdx) == want
				})
			}
			fl.solve()
			return fl
		}
		var onPtr, onVal *boolFlow
		instrsOf(fn, func(in ssa.Instruction) {
			c, ok := in.(*ssa.Call)
			if !ok {
				return
			}
			f := calleeFunc(c)
			if f == nil || f.FullName() != "(reflect.Value).Method" {
				return
			}
			// only calls that use the cached index
			if !isNamedField(c.Call.Args[1], "methodIndex") {
				return
			}
			nMeth++
			if onPtr == nil {
				onPtr, onVal = flagFlow(true), flagFlow(false)
			}
			recv := unspill(c.Call.Args[0])
			construct := "cached method index applied to the method set it was computed for"
			pos := w.posOf(in.Pos())
			isPtrRecv := false
			if rc, ok := recv.(*ssa.Call); ok {
				if g := rc.Call.StaticCallee(); g != nil && (g.String() == "reflect.New" || g.String() == "reflect.ValueOf") {
					isPtrRecv = true
				}
			}
			// is the receiver the value whose type keys the cache?
			isKeyValue := isKeyVal(recv)
			if p, field, ok := paramOrigin(recv); ok && !isKeyValue {
				// a helper with several call sites: at each the argument is a key value
				if cvs, ok := callerValues(p, field); ok && len(cvs) > 0 {
					isKeyValue = true
					for _, cv := range cvs {
						if !isKeyVal(cv.val) {
							isKeyValue = false
						}
					}
				}
			}
			switch {
			case isKeyValue:
				if onVal.at(in) {
					r.ok("R20.6", ssaName(fn), construct, pos, "value receiver, under ptrMethod == false", true)
				} else {
					r.bad("R20.6", ssaName(fn), construct, pos, "a method index that may have been computed on the pointer type's method set is applied to the struct value")
				}
			case isPtrRecv:
				if onPtr.at(in) {
					r.ok("R20.6", ssaName(fn), construct, pos, "pointer receiver, under ptrMethod == true", true)
				} else {
					r.bad("R20.6", ssaName(fn), construct, pos, "a method index that may have been computed on the struct type's method set is applied to a pointer receiver (the pointer's method set also contains the pointer-receiver methods, so the same index names another method)")
				}
			default:
				r.bad("R20.6", ssaName(fn), construct, pos, "the receiver of Method(cached index) cannot be tied to the kind of method set the index was computed on (value vs pointer): with mixed receiver kinds the wrong member is called")
			}
		})
	}
	r.floor("uses of a cached method index", nMeth, 1)
}

// impureSource walks the backward slice of v; returns "" if it only reaches the key parts,
// constants and reflect.Type methods, otherwise a description of the offending source.
func impureSource(v ssa.Value, isPart func(ssa.Value) bool, seen map[ssa.Value]bool, depth int) string {
	if seen[v] || depth > 12 {
		return ""
	}
	seen[v] = true
	if isPart(v) {
		return ""
	}
	switch x := v.(type) {
	case *ssa.Const:
		return ""
	case *ssa.Parameter:
		return "parameter " + x.Name()
	case *ssa.Phi:
		for _, e := range x.Edges {
			if why := impureSource(e, isPart, seen, depth+1); why != "" {
				return why
			}
		}
		return ""
	case *ssa.Extract:
		return impureSource(x.Tuple, isPart, seen, depth+1)
	case *ssa.Field:
		return impureSource(x.X, isPart, seen, depth+1)
	case *ssa.FieldAddr:
		return impureSource(x.X, isPart, seen, depth+1)
	case *ssa.IndexAddr:
		if why := impureSource(x.X, isPart, seen, depth+1); why != "" {
			return why
		}
		return impureSource(x.Index, isPart, seen, depth+1)
	case *ssa.Index:
		return impureSource(x.X, isPart, seen, depth+1)
	case *ssa.UnOp:
		if al, ok := x.X.(*ssa.Alloc); ok {
			// a local: every value stored into it must be pure
			if al.Referrers() != nil {
				for _, ref := range *al.Referrers() {
					if st, ok := ref.(*ssa.Store); ok && st.Addr == al {
						if why := impureSource(st.Val, isPart, seen, depth+1); why != "" {
							return why
						}
					}
				}
			}
			return ""
		}
		if g := globalOf(x.X); g != nil {
			return "package variable " + g.Name()
		}
		return impureSource(x.X, isPart, seen, depth+1)
	case *ssa.BinOp:
		if why := impureSource(x.X, isPart, seen, depth+1); why != "" {
			return why
		}
		return impureSource(x.Y, isPart, seen, depth+1)
	case *ssa.Convert:
		return impureSource(x.X, isPart, seen, depth+1)
	case *ssa.ChangeInterface:
		return impureSource(x.X, isPart, seen, depth+1)
	case *ssa.MakeInterface:
		return impureSource(x.X, isPart, seen, depth+1)
	case *ssa.TypeAssert:
		return impureSource(x.X, isPart, seen, depth+1)
	case *ssa.ChangeType:
		return impureSource(x.X, isPart, seen, depth+1)
	case *ssa.Alloc:
		return ""
	case *ssa.Slice:
		return impureSource(x.X, isPart, seen, depth+1)
	case *ssa.Call:
		f := calleeFunc(x)
		name := "a dynamic call"
		if f != nil {
			name = f.FullName()
			recvIsType := x.Call.IsInvoke() && isNamed(x.Call.Value.Type(), "reflect", "Type")
			pureFn := recvIsType || name == "reflect.PtrTo" || name == "reflect.PointerTo" || name == "reflect.TypeOf"
			if pureFn {
				var args []ssa.Value
				if x.Call.IsInvoke() {
					args = append(args, x.Call.Value)
				}
				args = append(args, x.Call.Args...)
				for _, a := range args {
					if why := impureSource(a, isPart, seen, depth+1); why != "" {
						return why
					}
				}
				return ""
			}
			if strings.HasPrefix(name, "time.") {
				return "the clock (" + name + ")"
			}
		}
		return "the result of " + name
	case *ssa.Lookup:
		return "another cache/map entry"
	}
	return fmt.Sprintf("a value of kind %T", v)
}

// controllingCondsBelow: the controlling conditions that lie below the innermost dominating
// cache-hit test — everything above it decides whether the cache is consulted at all and is
// implied by the key (nil object, map fast path, "is a struct"), everything below it decides
// what is stored under the key.
func controllingCondsBelow(in ssa.Instruction, isHitTest func(ssa.Value) bool) []ssa.Value {
	var out []ssa.Value
	b := in.Block()
	for d := b.Idom(); d != nil; d = d.Idom() {
		v, _, ok := ifCond(d)
		if !ok {
			continue
		}
		if isHitTest(v) {
			return out
		}
		// d controls b iff b cannot be reached from every successor of d
		through := 0
		for _, s := range d.Succs {
			if blockReaches(s, b) {
				through++
			}
		}
		if through < len(d.Succs) {
			out = append(out, v)
		}
	}
	return nil // no hit test above the store: nothing to say
}

// controllingConds: the conditions of the If instructions on which the instruction is control
// dependent (a dominator whose two successors are not both on every path to the instruction).
func controllingConds(in ssa.Instruction) []ssa.Value {
	var out []ssa.Value
	b := in.Block()
	for d := b.Idom(); d != nil; d = d.Idom() {
		v, _, ok := ifCond(d)
		if !ok {
			continue
		}
		// the instruction's block is reached through exactly one successor of d — and not from
		// the other one as well (the join after an `if` without else is a successor of the test,
		// but both branches arrive there)
		// (a successor that is the head of an enclosing loop dominates the block without
		// leading to it: only reachability without coming back to the test counts)
		reachable := 0
		for _, s := range d.Succs {
			if s == b || blockReachesAvoiding(s, b, d) {
				reachable++
			}
		}
		if reachable >= 1 && reachable < len(d.Succs) {
			out = append(out, v)
		}
	}
	return out
}

// isCacheHitTest: the comma-ok result of a lookup in the cache map under this key.
func isCacheHitTest(v ssa.Value, isCacheMap func(ssa.Value) bool, k *keyRef) bool {
	seen := map[ssa.Value]bool{}
	var walk func(v ssa.Value) bool
	walk = func(v ssa.Value) bool {
		if seen[v] {
			return true
		}
		seen[v] = true
		switch x := v.(type) {
		case *ssa.Extract:
			if lk, ok := x.Tuple.(*ssa.Lookup); ok && x.Index == 1 && isCacheMap(lk.X) {
				if k.sameKey(lk.Index) {
					return true
				}
			}
		case *ssa.Phi:
			for _, e := range x.Edges {
				if !walk(e) {
					return false
				}
			}
			return true
		case *ssa.UnOp:
			if al, ok := x.X.(*ssa.Alloc); ok && al.Referrers() != nil {
				n := 0
				for _, ref := range *al.Referrers() {
					if st, ok := ref.(*ssa.Store); ok && st.Addr == al {
						n++
						if !walk(st.Val) {
							return false
						}
					}
				}
				return n > 0
			}
		case *ssa.BinOp:
			// attributeCache.currSize >= maxSize: capacity management
			return false
		}
		return false
	}
	return walk(v)
}

func blockReaches(from, to *ssa.BasicBlock) bool {
	seen := map[*ssa.BasicBlock]bool{}
	var walk func(b *ssa.BasicBlock) bool
	walk = func(b *ssa.BasicBlock) bool {
		if b == to {
			return true
		}
		if seen[b] {
			return false
		}
		seen[b] = true
		for _, s := range b.Succs {
			if walk(s) {
				return true
			}
		}
		return false
	}
	return walk(from)
}

// modifiesLookedUpEntry: a store into a lookup (non-statistics) field of the local entry whose
// reaching whole-value assignment is the result of a lookup in the cache map.
func modifiesLookedUpEntry(al *ssa.Alloc, isCacheMap func(ssa.Value) bool) *ssa.Store {
	if al.Referrers() == nil {
		return nil
	}
	var wholes []*ssa.Store
	var fields []*ssa.Store
	for _, ref := range *al.Referrers() {
		switch x := ref.(type) {
		case *ssa.Store:
			if x.Addr == ssa.Value(al) {
				wholes = append(wholes, x)
			}
		case *ssa.FieldAddr:
			_, f := fieldOfAddr(x)
			if statFields[f] || x.Referrers() == nil {
				continue
			}
			for _, r2 := range *x.Referrers() {
				if st, ok := r2.(*ssa.Store); ok && st.Addr == ssa.Value(x) {
					fields = append(fields, st)
				}
			}
		}
	}
	before := func(a, b ssa.Instruction) bool { // a executes before b on every path to b
		if a.Block() == b.Block() {
			for _, in := range a.Block().Instrs {
				if in == a {
					return true
				}
				if in == b {
					return false
				}
			}
		}
		return a.Block().Dominates(b.Block())
	}
	fromLookup := func(v ssa.Value) bool {
		if ex, ok := v.(*ssa.Extract); ok {
			v = ex.Tuple
		}
		lk, ok := v.(*ssa.Lookup)
		return ok && isCacheMap(lk.X)
	}
	for _, fs := range fields {
		var reaching *ssa.Store
		for _, ws := range wholes {
			if !before(ws, fs) {
				continue
			}
			if reaching == nil || before(reaching, ws) {
				reaching = ws
			}
		}
		if reaching != nil && fromLookup(reaching.Val) {
			return fs
		}
	}
	return nil
}

// blockReachesAvoiding: to is reachable from from without passing through avoid (so that going
// round an enclosing loop back through the test itself does not count).
func blockReachesAvoiding(from, to, avoid *ssa.BasicBlock) bool {
	seen := map[*ssa.BasicBlock]bool{avoid: true}
	var walk func(b *ssa.BasicBlock) bool
	walk = func(b *ssa.BasicBlock) bool {
		if b == to {
			return true
		}
		if seen[b] {
			return false
		}
		seen[b] = true
		for _, s := range b.Succs {
			if walk(s) {
				return true
			}
		}
		return false
	}
	return walk(from)
}

// checkEntriesOnlyUnderKeys — R20.7: a resolved lookup (attributeCacheEntry) is kept nowhere but
// as the value of a map keyed by the whole (type, attribute) key.  Decided on types: no
// package-level variable and no type declared in the package contains the entry type on a path
// that does not go through map[attributeCacheKey].  A second store in front of or beside the
// cache — an array indexed by a hash, a per-name map, a "last lookup" field — answers a lookup
// with the entry of whichever other lookup shares its slot.
func (w *World) checkEntriesOnlyUnderKeys(r *Report, keyT, entryT types.Type) {
	var holds func(t types.Type, seen map[types.Type]bool) string
	holds = func(t types.Type, seen map[types.Type]bool) string {
		if t == nil || seen[t] {
			return ""
		}
		seen[t] = true
		if types.Identical(t, entryT) {
			return "the entry"
		}
		switch x := t.(type) {
		case *types.Named:
			if ta := x.TypeArgs(); ta != nil {
				for i := 0; i < ta.Len(); i++ {
					if p := holds(ta.At(i), seen); p != "" {
						return x.Obj().Name() + "[…] of " + p
					}
				}
			}
			if x.Obj().Pkg() != w.Pkg.Types {
				return ""
			}
			if p := holds(x.Underlying(), seen); p != "" {
				return x.Obj().Name() + " holding " + p
			}
		case *types.Alias:
			return holds(types.Unalias(x), seen)
		case *types.Pointer:
			return holds(x.Elem(), seen)
		case *types.Slice:
			if p := holds(x.Elem(), seen); p != "" {
				return "a slice of " + p
			}
		case *types.Array:
			if p := holds(x.Elem(), seen); p != "" {
				return "an array of " + p
			}
		case *types.Chan:
			if p := holds(x.Elem(), seen); p != "" {
				return "a channel of " + p
			}
		case *types.Map:
			if types.Identical(x.Key(), keyT) && types.Identical(x.Elem(), entryT) {
				return ""
			}
			if p := holds(x.Elem(), seen); p != "" {
				return "a map keyed by " + x.Key().String() + " of " + p
			}
			return holds(x.Key(), seen)
		case *types.Struct:
			for i := 0; i < x.NumFields(); i++ {
				if p := holds(x.Field(i).Type(), seen); p != "" {
					return "field " + x.Field(i).Name() + ": " + p
				}
			}
		}
		return ""
	}
	scope := w.Pkg.Types.Scope()
	n := 0
	for _, name := range scope.Names() {
		obj := scope.Lookup(name)
		var t types.Type
		switch o := obj.(type) {
		case *types.Var:
			t = o.Type()
		case *types.TypeName:
			if types.Identical(o.Type(), entryT) {
				continue
			}
			// record types that only ever live in locals (a candidate list built for one
			// eviction pass) are not stores: a type counts when it has methods of its own
			// state (objects: contexts, engines, loaders) or is part of another such type or
			// of a package-level variable — the latter is covered by walking those.
			nt, isNamedT := o.Type().(*types.Named)
			if !isNamedT || !keepsState(nt) {
				continue
			}
			t = o.Type().Underlying()
		default:
			continue
		}
		n++
		if p := holds(t, map[types.Type]bool{}); p != "" {
			r.bad("R20.7", "("+name+")", "resolved lookups are kept only under whole keys", w.posOf(obj.Pos()), name+" keeps resolved lookups outside map[attributeCacheKey] ("+p+"): whatever selects the slot there is not the (type, attribute) pair, so a lookup can be answered with the entry resolved for another one")
		}
	}
	r.ok("R20.7", "(package scope)", "resolved lookups are kept only under whole keys", "-", fmt.Sprintf("%d package-level variables and types hold no attributeCacheEntry outside the keyed map", n), true)
}

// keepsState: a named struct type with at least one pointer-receiver method (an object whose
// fields outlive a call).
func keepsState(nt *types.Named) bool {
	for i := 0; i < nt.NumMethods(); i++ {
		if sig, ok := nt.Method(i).Type().(*types.Signature); ok && sig.Recv() != nil {
			if _, isPtr := sig.Recv().Type().(*types.Pointer); isPtr {
				return true
			}
		}
	}
	return false
}

// checkAttributeAccessCoversMaps — R20.8: x.name on a map is a key lookup whatever the map's type.
// The attribute resolver (the function that builds the cache key) reaches, through static calls
// inside the package, a call of reflect.Value.MapIndex: without one, only the map types the
// function names in type assertions (map[string]interface{}) can be answered, and x.name on a
// map[string]string, a map with a named key type, a map of maps … is empty while x['name'] on the
// same value is not.  This is the structural necessary condition; which key is looked up is
// decided by R20.5-style value rules only for the cache.
func (w *World) checkAttributeAccessCoversMaps(r *Report, keyT types.Type) {
	n := 0
	for _, fn := range w.pkgFuncs() {
		if len(keyLiterals(fn, keyT)) == 0 || fn.Signature.Results().Len() == 0 {
			continue
		}
		// resolvers take the attribute name
		hasName := false
		for _, p := range fn.Params {
			if b, ok := p.Type().Underlying().(*types.Basic); ok && b.Kind() == types.String {
				hasName = true
			}
		}
		if !hasName {
			continue
		}
		// the entry points of attribute access: the function with the key literal, or — where the
		// cache handling was split off into a helper — the callers that hand it the name
		g := w.callgraph()
		family := map[*ssa.Function]bool{fn: true}
		frontier := []*ssa.Function{fn}
		for d := 0; d < 3; d++ {
			var next []*ssa.Function
			for _, f := range frontier {
				if g.Nodes[f] == nil {
					continue
				}
				for _, e := range realInEdges(f) {
					c := e.Caller.Func
					if c == nil || family[c] || !isTwigFn(c) || e.Site == nil || e.Site.Common().StaticCallee() != f {
						continue
					}
					takesName, takesNode := false, false
					for _, p := range c.Params {
						if b, ok := p.Type().Underlying().(*types.Basic); ok && b.Kind() == types.String {
							takesName = true
						}
						if isNamed(p.Type(), twigPath, "Node") {
							takesNode = true
						}
					}
					if takesName && !takesNode {
						family[c] = true
						next = append(next, c)
					}
				}
			}
			frontier = next
		}
		var tops []*ssa.Function
		for f := range family {
			top := true
			for _, e := range realInEdges(f) {
				if family[e.Caller.Func] && e.Caller.Func != f {
					top = false
				}
			}
			if top {
				tops = append(tops, f)
			}
		}
		// of those, the ones an attribute expression is answered by: called where a node has been
		// found to be a *GetAttrNode (its case of the evaluator's type switch, or a method of it)
		tops = w.getAttrEntries(family)
		if len(tops) == 0 {
			continue // a cache user of another kind (method calls, "is defined"): not the resolver of x.name
		}
		sort.Slice(tops, func(i, j int) bool { return ssaName(tops[i]) < ssaName(tops[j]) })
		for _, top := range tops {
			n++
			construct := "attribute access on a map of any type reaches reflect.Value.MapIndex"
			type item struct {
				f    *ssa.Function
				path string
			}
			seen := map[*ssa.Function]bool{top: true}
			work := []item{{top, ssaName(top)}}
			found := ""
			for len(work) > 0 && found == "" {
				it := work[0]
				work = work[1:]
				instrsOf(it.f, func(in ssa.Instruction) {
					c, ok := in.(ssa.CallInstruction)
					if !ok || found != "" {
						return
					}
					g := c.Common().StaticCallee()
					if g == nil {
						return
					}
					switch g.String() {
					case "(reflect.Value).MapIndex", "(reflect.Value).MapRange", "(reflect.Value).MapKeys":
						found = it.path + " → " + g.String() + " at " + w.posOf(in.Pos())
						return
					}
					if isTwigFn(g) && len(g.Blocks) > 0 && !seen[g] && strings.Count(it.path, "→") < 3 {
						seen[g] = true
						work = append(work, item{g, it.path + " → " + ssaName(g)})
					}
				})
			}
			if found != "" {
				r.ok("R20.8", ssaName(top), construct, w.posOf(top.Pos()), found, true)
			} else {
				r.bad("R20.8", ssaName(top), construct, w.posOf(top.Pos()), "the resolver never looks a key up by reflection: x.name is answered only for the map types it names in type assertions, and is empty on every other map (map[string]string, named key types, maps of maps) although x['name'] on the same value finds the key")
			}
		}
	}
	r.floor("attribute resolvers", n, 1)
}

// getAttrEntries: members of family that are called where the evaluated node is known to be a
// *GetAttrNode — in a method of GetAttrNode, or at a site dominated by the success of a type
// assertion to *GetAttrNode.
func (w *World) getAttrEntries(family map[*ssa.Function]bool) []*ssa.Function {
	gat := w.named("GetAttrNode")
	isGetAttr := func(t types.Type) bool { return types.Identical(deref(t), gat) }
	out := map[*ssa.Function]bool{}
	for _, fn := range w.pkgFuncs() {
		var okBlocks []*ssa.BasicBlock
		all := fn.Signature.Recv() != nil && isGetAttr(fn.Signature.Recv().Type())
		if !all {
			instrsOf(fn, func(in ssa.Instruction) {
				ta, ok := in.(*ssa.TypeAssert)
				if !ok || !isGetAttr(ta.AssertedType) {
					return
				}
				if !ta.CommaOk {
					okBlocks = append(okBlocks, ta.Block())
					return
				}
				// the block entered when the assertion succeeded
				if ta.Referrers() == nil {
					return
				}
				for _, ref := range *ta.Referrers() {
					ex, ok := ref.(*ssa.Extract)
					if !ok || ex.Index != 1 || ex.Referrers() == nil {
						continue
					}
					for _, r2 := range *ex.Referrers() {
						if iff, ok := r2.(*ssa.If); ok && iff.Cond == ssa.Value(ex) {
							okBlocks = append(okBlocks, iff.Block().Succs[0])
						}
					}
				}
			})
		}
		if !all && len(okBlocks) == 0 {
			continue
		}
		instrsOf(fn, func(in ssa.Instruction) {
			c, ok := in.(ssa.CallInstruction)
			if !ok {
				return
			}
			g := c.Common().StaticCallee()
			if g == nil || !family[g] {
				return
			}
			// the value of the attribute is what it returns (not "is it defined", not a method call's outcome)
			res := g.Signature.Results()
			if res.Len() != 2 || !types.IsInterface(res.At(0).Type()) || res.At(1).Type().String() != "error" {
				return
			}
			if all {
				out[g] = true
				return
			}
			for _, b := range okBlocks {
				if b == in.Block() || b.Dominates(in.Block()) {
					out[g] = true
				}
			}
		})
	}
	var res []*ssa.Function
	for f := range out {
		res = append(res, f)
	}
	return res
}

// iterationConds: the tests that decide, within one pass through the innermost loop around the
// definition of elem, whether in runs in that pass: blocks of the loop from which in's block is
// reached through some but not all successors without going round the loop again.
func iterationConds(in ssa.Instruction, elem ssa.Value) []ssa.Value {
	ei, ok := elem.(ssa.Instruction)
	if !ok || ei.Block() == nil {
		return controllingConds(in)
	}
	var header *ssa.BasicBlock
	for d := ei.Block(); d != nil && header == nil; d = d.Idom() {
		for _, p := range d.Preds {
			if d.Dominates(p) {
				header = d
			}
		}
	}
	if header == nil {
		return controllingConds(in)
	}
	b := in.Block()
	reachesAvoiding := func(from, to *ssa.BasicBlock, avoid ...*ssa.BasicBlock) bool {
		seen := map[*ssa.BasicBlock]bool{}
		for _, a := range avoid {
			seen[a] = true
		}
		var walk func(x *ssa.BasicBlock) bool
		walk = func(x *ssa.BasicBlock) bool {
			if x == to {
				return true
			}
			if seen[x] {
				return false
			}
			seen[x] = true
			for _, s := range x.Succs {
				if walk(s) {
					return true
				}
			}
			return false
		}
		return walk(from)
	}
	var out []ssa.Value
	done := map[*ssa.BasicBlock]bool{}
	var collect func(b *ssa.BasicBlock, depth int)
	collect = func(b *ssa.BasicBlock, depth int) {
		if done[b] || depth > 4 {
			return
		}
		done[b] = true
		for _, d := range in.Parent().Blocks {
			if d == header || !header.Dominates(d) || d == b {
				continue
			}
			v, _, ok := ifCond(d)
			if !ok {
				continue
			}
			reachable := 0
			for _, s := range d.Succs {
				if s != header && (s == b || reachesAvoiding(s, b, d, header)) {
					reachable++
				}
			}
			if reachable >= 1 && reachable < len(d.Succs) {
				out = append(out, v)
				// … and what decides whether that test is reached at all in this pass
				collect(d, depth+1)
			}
		}
	}
	collect(b, 0)
	return out
}

// checkMapKeysAreChecked — R20.9: the key a map is searched with is the subscript, not a guess.
// For every reflect.Value.MapIndex call, the key does not derive from the first result of a
// conversion whose error / ok result is discarded (`n, _ := toNumber(index)`): when the subscript is
// not a number that conversion yields 0, and an integer-keyed map is then searched for key 0 —
// x.label and x['label'] answer with m[0] instead of nothing.
func checkMapKeysAreChecked(w *World, r *Report) {
	n := 0
	for _, fn := range w.pkgFuncs() {
		instrsOf(fn, func(in ssa.Instruction) {
			c, ok := in.(*ssa.Call)
			if !ok {
				return
			}
			g := c.Call.StaticCallee()
			if g == nil || g.String() != "(reflect.Value).MapIndex" || len(c.Call.Args) != 2 {
				return
			}
			n++
			bad := ""
			seen := map[ssa.Value]bool{}
			var walk func(v ssa.Value, d int)
			walk = func(v ssa.Value, d int) {
				if v == nil || seen[v] || d > 10 || bad != "" {
					return
				}
				seen[v] = true
				switch x := v.(type) {
				case *ssa.Phi:
					for _, e := range x.Edges {
						walk(e, d+1)
					}
				case *ssa.MakeInterface:
					walk(x.X, d+1)
				case *ssa.Convert:
					walk(x.X, d+1)
				case *ssa.ChangeType:
					walk(x.X, d+1)
				case *ssa.BinOp:
					walk(x.X, d+1)
					walk(x.Y, d+1)
				case *ssa.UnOp:
					if al, ok := x.X.(*ssa.Alloc); ok && al.Referrers() != nil {
						for _, ref := range *al.Referrers() {
							if st, ok := ref.(*ssa.Store); ok && st.Addr == ssa.Value(al) {
								walk(st.Val, d+1)
							}
						}
					}
				case *ssa.Call:
					if h := x.Call.StaticCallee(); h != nil {
						switch h.String() {
						case "reflect.ValueOf", "(reflect.Value).Convert", "reflect.Indirect":
							walk(x.Call.Args[0], d+1)
						}
					}
				case *ssa.Extract:
					call, ok := x.Tuple.(*ssa.Call)
					if !ok || x.Index != 0 {
						return
					}
					res := call.Call.Signature().Results()
					if res.Len() < 2 {
						return
					}
					// (value, error) or (value, ok)
					last := res.At(res.Len() - 1).Type()
					if b, isBool := last.Underlying().(*types.Basic); !types.Identical(last, errorType) && !(isBool && b.Kind() == types.Bool) {
						return
					}
					// is the error looked at?
					used := false
					if call.Referrers() != nil {
						for _, ref := range *call.Referrers() {
							if ex, ok := ref.(*ssa.Extract); ok && ex.Index == res.Len()-1 && ex.Referrers() != nil && len(*ex.Referrers()) > 0 {
								used = true
							}
						}
					}
					if !used {
						name := "a call"
						if h := call.Call.StaticCallee(); h != nil {
							name = h.Name()
						}
						bad = name + " at " + w.posOf(call.Pos())
					}
				}
			}
			walk(c.Call.Args[1], 0)
			construct := "map key derives from the subscript, not from an unchecked conversion"
			if bad == "" {
				r.ok("R20.9", ssaName(fn), construct, w.posOf(in.Pos()), "no contribution from a conversion whose error is discarded", true)
			} else {
				r.bad("R20.9", ssaName(fn), construct, w.posOf(in.Pos()), "the key can be the result of "+bad+", whose error is discarded: for a subscript that does not convert the result is the zero value, and the map is searched for that key — x.name and x['name'] answer with the entry for 0 (or \"\") instead of an empty value")
			}
		})
	}
	r.floor("reflect map lookups", n, 1)
}

// checkTypedMapLookupsSeeAbsence — R20.10: a key that is not there yields an empty value.  On
// render paths no plain `m[key]` (without the comma-ok form) on a map whose element type is not an
// interface is boxed and returned as a template value: for a missing key Go hands out the element
// type's zero value — 0, false, "" — and x.name / x['name'] would answer with that instead of
// nothing, so `x.missing is defined`, `default` and truthiness see a value that is not in the map.
func checkTypedMapLookupsSeeAbsence(w *World, r *Report) {
	reach := w.renderReachable()
	n := 0
	for _, fn := range w.pkgFuncs() {
		if !reach[fn] {
			continue
		}
		instrsOf(fn, func(in ssa.Instruction) {
			lk, ok := in.(*ssa.Lookup)
			if !ok || lk.CommaOk {
				return
			}
			m, ok := lk.X.Type().Underlying().(*types.Map)
			if !ok {
				return
			}
			if _, isIface := m.Elem().Underlying().(*types.Interface); isIface {
				return
			}
			switch m.Elem().Underlying().(type) {
			case *types.Basic:
			default:
				return // structs, slices, funcs: tables of the engine, not data
			}
			// the map is a data value (asserted from interface{}), and the element is boxed and returned
			fromData := false
			for _, o := range originChain(lk.X) {
				if ex, ok := o.(*ssa.Extract); ok {
					o = ex.Tuple
				}
				if ta, ok := o.(*ssa.TypeAssert); ok {
					if it, ok := ta.X.Type().Underlying().(*types.Interface); ok && it.NumMethods() == 0 {
						fromData = true
					}
				}
			}
			if !fromData || lk.Referrers() == nil {
				return
			}
			returned := false
			for _, ref := range *lk.Referrers() {
				if mi, ok := ref.(*ssa.MakeInterface); ok && mi.Referrers() != nil {
					for _, r2 := range *mi.Referrers() {
						switch r2.(type) {
						case *ssa.Return, *ssa.Phi, *ssa.Store:
							returned = true
						}
					}
				}
			}
			if !returned {
				return
			}
			n++
			r.bad("R20.10", ssaName(fn), "element of a typed data map handed out without the comma-ok form", w.posOf(lk.Pos()), "for a key that is not in the map this yields the zero value of "+m.Elem().String()+" (0, false, \"\") as if it were an entry: attribute access answers with a value where it must answer with nothing")
		})
	}
	r.Counts["plain lookups in typed data maps that become template values"] = n
}
