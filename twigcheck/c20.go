package main

// C20 — attribute access returns the right member whatever was looked up before.
//
// R20.1 the memo key is the whole lookup: every attributeCacheKey literal sets every field, the
//       key struct is comparable and used directly as the map key.
// R20.2 a struct field is reached by its full index path: reflect.StructField.Index is never
//       indexed with a constant (Index[0]); it is passed whole to FieldByIndex(Err).
// R20.3 cached lookup data is a pure function of the key: the backward slice of every store into
//       a lookup field of a cache entry contains only the value stored into key.typ, the value
//       stored into key.attr, constants and reflect.Type methods.
// R20.4 eviction only forgets: every write to the cache map is a delete, an insert of an entry
//       computed under R20.3 for that same key, or a read-modify-write under the same key that
//       touches statistics fields only.
// R20.5 the dynamic type decides: key.typ is obtained by Type() from the very reflect.Value that
//       is used for the field access.

import (
	"fmt"
	"go/ast"
	"go/types"
	"strings"

	"golang.org/x/tools/go/ssa"
)

func init() { register("C20", checkC20) }

var statFields = map[string]bool{"lastAccess": true, "accessCount": true}

func checkC20(w *World, r *Report) {
	r.Explanation = "Decides that the attribute cache and its eviction are unobservable, for every history of lookups: (R20.1) the cache key literal sets all fields (dynamic type and attribute name) and is used as the map key itself; (R20.2) a field found by FieldByName is reached through its whole index path, never through Index[0]; (R20.3) every lookup field stored in a cache entry is computed only from the key's type and name through side-effect-free reflect.Type methods — not from the object value, other entries or time; (R20.4) every other write to the cache map is a delete or a statistics-only update of the entry read under the same key; (R20.5) the key's type comes from the same reflect.Value that serves the access. Together: a hit returns what a miss would compute. Not decided: that reflect's FieldByName/MethodByName implement 'exported field incl. promoted / zero-argument method' (trusted stdlib); getItem's key conversions."
	r.RuleText = "obligation = one key literal / StructField.Index use / store into an entry field / write to the cache map; non-trivial = all but constant stores"
	r.Trusted = []string{"reflect.Type methods are pure functions of the type", "reflect.Value.FieldByIndex follows the whole path"}

	keyT := w.named("attributeCacheKey")
	entryT := w.named("attributeCacheEntry")
	keySt := keyT.Underlying().(*types.Struct)
	if !types.Comparable(keyT) {
		r.bad("R20.1", "(type attributeCacheKey)", "comparable key", "-", "the cache key type is not comparable")
	}
	// the cache map's key type is the struct itself
	cacheVar, _ := w.lookup("attributeCache").(*types.Var)
	if cacheVar == nil {
		cannotDecide("anchor attributeCache is not a variable")
	}
	cst, ok := cacheVar.Type().Underlying().(*types.Struct)
	if !ok {
		cannotDecide("attributeCache is not a struct")
	}
	var cacheMapField string
	for i := 0; i < cst.NumFields(); i++ {
		if m, ok := cst.Field(i).Type().Underlying().(*types.Map); ok {
			cacheMapField = cst.Field(i).Name()
			if types.Identical(m.Key(), keyT) && types.Identical(m.Elem(), entryT) {
				r.ok("R20.1", "(var attributeCache)", "map keyed by the whole key struct", "-", "map[attributeCacheKey]attributeCacheEntry", false)
			} else {
				r.bad("R20.1", "(var attributeCache)", "map keyed by the whole key struct", "-", "the cache map is keyed by "+m.Key().String()+", not by the (type, attribute) key struct")
			}
		}
	}
	if cacheMapField == "" {
		cannotDecide("attributeCache has no map field")
	}
	// key fields: must contain a reflect.Type and a string
	hasType, hasStr := false, false
	for i := 0; i < keySt.NumFields(); i++ {
		if isNamed(keySt.Field(i).Type(), "reflect", "Type") {
			hasType = true
		}
		if types.Identical(keySt.Field(i).Type(), types.Typ[types.String]) {
			hasStr = true
		}
	}
	if hasType && hasStr {
		r.ok("R20.1", "(type attributeCacheKey)", "key holds the dynamic type and the attribute name", "-", "fields of type reflect.Type and string", false)
	} else {
		r.bad("R20.1", "(type attributeCacheKey)", "key holds the dynamic type and the attribute name", "-", "the key struct lacks a reflect.Type or a string field: distinct lookups share a cache slot")
	}

	// ---- R20.1 literals, R20.2 Index uses (AST)
	nLit, nIdx := 0, 0
	for _, fd := range w.sortedDecls() {
		fname := w.declName(fd)
		ast.Inspect(fd.Body, func(n ast.Node) bool {
			switch x := n.(type) {
			case *ast.CompositeLit:
				if tv, ok := w.Info.Types[x]; ok && types.Identical(tv.Type, keyT) {
					nLit++
					set := map[string]bool{}
					positional := false
					for _, el := range x.Elts {
						if kv, ok := el.(*ast.KeyValueExpr); ok {
							set[kv.Key.(*ast.Ident).Name] = true
						} else {
							positional = true
						}
					}
					complete := positional && len(x.Elts) == keySt.NumFields()
					if !positional {
						complete = len(set) == keySt.NumFields()
					}
					if complete {
						r.ok("R20.1", fname, "attributeCacheKey literal", w.pos(x), "every field set", true)
					} else {
						r.bad("R20.1", fname, "attributeCacheKey literal", w.pos(x), "the cache key literal leaves a field at its zero value: lookups that differ in that field share one cache slot")
					}
				}
			case *ast.SelectorExpr:
				if x.Sel.Name != "Index" || !isNamed(w.Info.TypeOf(x.X), "reflect", "StructField") {
					return true
				}
				nIdx++
				construct := "use of StructField.Index"
				switch par := w.parents[x].(type) {
				case *ast.IndexExpr:
					if par.X == x {
						r.bad("R20.2", fname, construct, w.pos(x), "only one element of the field's index path is used: a field promoted from an embedded struct resolves to the embedded struct itself")
						return true
					}
				case *ast.SliceExpr:
					if par.X == x {
						r.bad("R20.2", fname, construct, w.pos(x), "the field's index path is truncated")
						return true
					}
				}
				r.ok("R20.2", fname, construct, w.pos(x), "the whole index path is kept", true)
			}
			return true
		})
	}
	r.floor("attributeCacheKey literals", nLit, 1)
	r.floor("uses of reflect.StructField.Index", nIdx, 1)

	// ---- R20.3 / R20.4 / R20.5 (SSA)
	_, sp := w.ssa()
	cacheG := sp.Var("attributeCache")
	isCacheMap := func(v ssa.Value) bool {
		u, ok := v.(*ssa.UnOp)
		if !ok {
			return false
		}
		fa, ok := u.X.(*ssa.FieldAddr)
		return ok && fa.X == ssa.Value(cacheG)
	}
	nWrites := 0
	doneFns := map[*ssa.Function]bool{}
	for _, fn := range w.pkgFuncs() {
		var updates []*ssa.MapUpdate
		instrsOf(fn, func(in ssa.Instruction) {
			if mu, ok := in.(*ssa.MapUpdate); ok && isCacheMap(mu.Map) {
				updates = append(updates, mu)
			}
			if c, ok := in.(*ssa.Call); ok {
				if b, ok := c.Call.Value.(*ssa.Builtin); ok && b.Name() == "delete" && isCacheMap(c.Call.Args[0]) {
					nWrites++
					r.ok("R20.4", ssaName(fn), "delete from the cache map", w.posOf(in.Pos()), "eviction only forgets", false)
				}
			}
		})
		for _, mu := range updates {
			nWrites++
			w.checkCacheUpdate(r, fn, mu, isCacheMap, doneFns)
		}
	}
	r.floor("writes to the attribute cache map", nWrites, 3)
}

// keyParts: for a key value (load of a local key struct), the values stored into its fields.
func keyParts(key ssa.Value) (typ ssa.Value, attr ssa.Value, alloc *ssa.Alloc) {
	u, ok := key.(*ssa.UnOp)
	if !ok {
		return nil, nil, nil
	}
	al, ok := u.X.(*ssa.Alloc)
	if !ok || al.Referrers() == nil {
		return nil, nil, nil
	}
	for _, ref := range *al.Referrers() {
		fa, ok := ref.(*ssa.FieldAddr)
		if !ok || fa.Referrers() == nil {
			continue
		}
		_, fname := fieldOfAddr(fa)
		for _, r2 := range *fa.Referrers() {
			if st, ok := r2.(*ssa.Store); ok && st.Addr == fa {
				if isNamed(st.Val.Type(), "reflect", "Type") {
					typ = st.Val
				} else if types.Identical(st.Val.Type(), types.Typ[types.String]) {
					attr = st.Val
				}
				_ = fname
			}
		}
	}
	return typ, attr, al
}

func (w *World) checkCacheUpdate(r *Report, fn *ssa.Function, mu *ssa.MapUpdate, isCacheMap func(ssa.Value) bool, done map[*ssa.Function]bool) {
	pos := w.posOf(mu.Pos())
	kTyp, kAttr, kAlloc := keyParts(mu.Key)
	vu, ok := mu.Value.(*ssa.UnOp)
	var eAlloc *ssa.Alloc
	if ok {
		eAlloc, _ = vu.X.(*ssa.Alloc)
	}
	if kAlloc == nil || eAlloc == nil || kTyp == nil || kAttr == nil {
		r.bad("R20.4", ssaName(fn), "write to the cache map", pos, "the key or the entry written to the attribute cache cannot be traced to a local (type, name) key and a local entry")
		return
	}
	// classify the entry local: whole-struct stores and field stores
	var wholeFromLookup, wholeOther int
	var lookupKeyOK = true
	fieldStores := map[string][]*ssa.Store{}
	for _, ref := range *eAlloc.Referrers() {
		switch x := ref.(type) {
		case *ssa.Store:
			if x.Addr != eAlloc {
				continue
			}
			// entry = m[key] (Lookup / Extract of Lookup) or a composite literal (zero + field stores)
			src := x.Val
			if ex, ok := src.(*ssa.Extract); ok {
				src = ex.Tuple
			}
			if lk, ok := src.(*ssa.Lookup); ok && isCacheMap(lk.X) {
				wholeFromLookup++
				if ku, ok := lk.Index.(*ssa.UnOp); !ok || ku.X != ssa.Value(kAlloc) {
					lookupKeyOK = false
				}
			} else if ld, ok := src.(*ssa.UnOp); ok {
				// copy of another local entry (cachedEntry → entry): follow one level
				if a2, ok := ld.X.(*ssa.Alloc); ok && a2 != eAlloc {
					wholeOther++
					_ = a2
				} else {
					wholeOther++
				}
			} else {
				wholeOther++
			}
		case *ssa.FieldAddr:
			_, f := fieldOfAddr(x)
			if x.Referrers() == nil {
				continue
			}
			for _, r2 := range *x.Referrers() {
				if st, ok := r2.(*ssa.Store); ok && st.Addr == x {
					fieldStores[f] = append(fieldStores[f], st)
				}
			}
		}
	}
	// purity of lookup-field stores
	impure := ""
	nLookupStores := 0
	for f, sts := range fieldStores {
		if statFields[f] {
			continue
		}
		for _, st := range sts {
			nLookupStores++
			if why := impureSource(st.Val, kTyp, kAttr, map[ssa.Value]bool{}, 0); why != "" {
				impure = fmt.Sprintf("field %s is computed from %s (%s)", f, why, w.posOf(st.Pos()))
				r.bad("R20.3", ssaName(fn), "store entry."+f, w.posOf(st.Pos()), "cached lookup data does not depend on the key alone: "+why+" — a later lookup with the same (type, name) can be answered with data computed for a different object or at a different time")
			} else {
				r.ok("R20.3", ssaName(fn), "store entry."+f, w.posOf(st.Pos()), "computed from key.typ / key.attr / constants through reflect.Type methods only", true)
			}
		}
	}
	// control dependence: the branch conditions that decide which lookup-field stores execute must
	// depend on the key alone as well (an entry filled differently for a value and for a pointer
	// of the same struct type makes the answer depend on who asked first)
	for f, sts := range fieldStores {
		if statFields[f] {
			continue
		}
		for _, st := range sts {
			for _, cond := range controllingCondsBelow(st, func(v ssa.Value) bool { return isCacheHitTest(v, isCacheMap, kAlloc) }) {
				if why := impureSource(cond, kTyp, kAttr, map[ssa.Value]bool{}, 0); why != "" {
					impure = fmt.Sprintf("whether field %s is set depends on %s", f, why)
					r.bad("R20.3", ssaName(fn), "condition controlling the store of entry."+f, w.posOf(st.Pos()), "what is cached under a (type, name) key is decided by a condition that does not depend on the key alone: "+why+" — the cached answer depends on which object was looked up first")
				}
			}
		}
	}
	switch {
	case wholeFromLookup > 0 && nLookupStores == 0 && lookupKeyOK:
		r.ok("R20.4", ssaName(fn), "write to the cache map (statistics update)", pos, "entry read under the same key, only statistics fields assigned, stored back under the same key", true)
	case wholeFromLookup > 0 && nLookupStores == 0 && !lookupKeyOK:
		r.bad("R20.4", ssaName(fn), "write to the cache map (statistics update)", pos, "an entry read under one key is stored under another key")
	case nLookupStores > 0 && impure == "":
		r.ok("R20.4", ssaName(fn), "write to the cache map (insert)", pos, "entry computed from this key only", true)
	case nLookupStores > 0:
		r.bad("R20.4", ssaName(fn), "write to the cache map (insert)", pos, "inserted entry is not a pure function of its key: "+impure)
	default:
		r.bad("R20.4", ssaName(fn), "write to the cache map", pos, "the written entry is neither a statistics update of the entry read under the same key nor an entry computed from the key")
	}

	// R20.5 / R20.6 concern the function as a whole: once per function
	if done[fn] {
		return
	}
	done[fn] = true
	// R20.5: key.typ = V.Type() and field access through the same V
	var keyVal ssa.Value
	if c, ok := kTyp.(*ssa.Call); ok && isFunc(calleeFunc(c), "reflect", "Value", "Type") {
		keyVal = c.Call.Args[0]
	}
	if keyVal == nil {
		r.bad("R20.5", ssaName(fn), "key.typ is the dynamic type of the accessed value", w.posOf(kTyp.Pos()), "the cache key's type is not obtained by Type() from a reflect.Value")
		return
	}
	nAcc := 0
	badAcc := ""
	instrsOf(fn, func(in ssa.Instruction) {
		c, ok := in.(*ssa.Call)
		if !ok {
			return
		}
		f := calleeFunc(c)
		if f == nil || f.Pkg() == nil || f.Pkg().Path() != "reflect" {
			return
		}
		switch f.Name() {
		case "Field", "FieldByIndex", "FieldByIndexErr", "FieldByName":
			if !isNamed(c.Call.Args[0].Type(), "reflect", "Value") {
				return
			}
			nAcc++
			if !sameValue(c.Call.Args[0], keyVal) {
				badAcc = w.posOf(in.Pos())
			}
		}
	})
	// R20.6: a cached method index is applied to the method set it was computed for
	isPtrMethodFlag := func(v ssa.Value) bool {
		switch x := v.(type) {
		case *ssa.UnOp:
			if fa, ok := x.X.(*ssa.FieldAddr); ok {
				_, f := fieldOfAddr(fa)
				return f == "ptrMethod"
			}
		case *ssa.Field:
			if st, ok := x.X.Type().Underlying().(*types.Struct); ok && x.Field < st.NumFields() {
				return st.Field(x.Field).Name() == "ptrMethod"
			}
		}
		return false
	}
	flagFlow := func(want bool) *boolFlow {
		fl := &boolFlow{fn: fn, entry: false}
		fl.edge = func(b *ssa.BasicBlock, i int) bool {
			v, trueIdx, ok := ifCond(b)
			if !ok || !isPtrMethodFlag(v) {
				return false
			}
			return (i == trueIdx) == want
		}
		fl.solve()
		return fl
	}
	var onPtr, onVal *boolFlow
	instrsOf(fn, func(in ssa.Instruction) {
		c, ok := in.(*ssa.Call)
		if !ok {
			return
		}
		f := calleeFunc(c)
		if f == nil || f.FullName() != "(reflect.Value).Method" {
			return
		}
		// only calls that use the cached index
		idx := c.Call.Args[1]
		usesCached := false
		switch x := idx.(type) {
		case *ssa.UnOp:
			if fa, ok := x.X.(*ssa.FieldAddr); ok {
				_, fn2 := fieldOfAddr(fa)
				usesCached = fn2 == "methodIndex"
			}
		case *ssa.Field:
			if st, ok := x.X.Type().Underlying().(*types.Struct); ok && x.Field < st.NumFields() {
				usesCached = st.Field(x.Field).Name() == "methodIndex"
			}
		}
		if !usesCached {
			return
		}
		if onPtr == nil {
			onPtr, onVal = flagFlow(true), flagFlow(false)
		}
		recv := unspill(c.Call.Args[0])
		construct := "cached method index applied to the method set it was computed for"
		pos := w.posOf(in.Pos())
		isPtrRecv := false
		if rc, ok := recv.(*ssa.Call); ok {
			if g := rc.Call.StaticCallee(); g != nil && (g.String() == "reflect.New" || g.String() == "reflect.ValueOf") {
				isPtrRecv = true
			}
		}
		switch {
		case sameReflect(recv, keyVal):
			if onVal.at(in) {
				r.ok("R20.6", ssaName(fn), construct, pos, "value receiver, under ptrMethod == false", true)
			} else {
				r.bad("R20.6", ssaName(fn), construct, pos, "a method index that may have been computed on the pointer type's method set is applied to the struct value")
			}
		case isPtrRecv:
			if onPtr.at(in) {
				r.ok("R20.6", ssaName(fn), construct, pos, "pointer receiver, under ptrMethod == true", true)
			} else {
				r.bad("R20.6", ssaName(fn), construct, pos, "a method index that may have been computed on the struct type's method set is applied to a pointer receiver (the pointer's method set also contains the pointer-receiver methods, so the same index names another method)")
			}
		default:
			r.bad("R20.6", ssaName(fn), construct, pos, "the receiver of Method(cached index) cannot be tied to the kind of method set the index was computed on (value vs pointer): with mixed receiver kinds the wrong member is called")
		}
	})
	if nAcc > 0 && badAcc == "" {
		r.ok("R20.5", ssaName(fn), "key.typ is the dynamic type of the accessed value", w.posOf(kTyp.Pos()), fmt.Sprintf("%d field access(es) go through the reflect.Value whose Type() is the key", nAcc), true)
	} else if badAcc != "" {
		r.bad("R20.5", ssaName(fn), "key.typ is the dynamic type of the accessed value", badAcc, "a field is read from a reflect.Value other than the one whose type keys the cache (index computed for one type applied to another)")
	}
}

// impureSource walks the backward slice of v; returns "" if it only reaches the key parts,
// constants and reflect.Type methods, otherwise a description of the offending source.
func impureSource(v ssa.Value, kTyp, kAttr ssa.Value, seen map[ssa.Value]bool, depth int) string {
	if seen[v] || depth > 12 {
		return ""
	}
	seen[v] = true
	if sameValue(v, kTyp) || sameValue(v, kAttr) {
		return ""
	}
	switch x := v.(type) {
	case *ssa.Const:
		return ""
	case *ssa.Parameter:
		return "parameter " + x.Name()
	case *ssa.Phi:
		for _, e := range x.Edges {
			if why := impureSource(e, kTyp, kAttr, seen, depth+1); why != "" {
				return why
			}
		}
		return ""
	case *ssa.Extract:
		return impureSource(x.Tuple, kTyp, kAttr, seen, depth+1)
	case *ssa.Field:
		return impureSource(x.X, kTyp, kAttr, seen, depth+1)
	case *ssa.FieldAddr:
		return impureSource(x.X, kTyp, kAttr, seen, depth+1)
	case *ssa.IndexAddr:
		if why := impureSource(x.X, kTyp, kAttr, seen, depth+1); why != "" {
			return why
		}
		return impureSource(x.Index, kTyp, kAttr, seen, depth+1)
	case *ssa.Index:
		return impureSource(x.X, kTyp, kAttr, seen, depth+1)
	case *ssa.UnOp:
		if al, ok := x.X.(*ssa.Alloc); ok {
			// a local: every value stored into it must be pure
			if al.Referrers() != nil {
				for _, ref := range *al.Referrers() {
					if st, ok := ref.(*ssa.Store); ok && st.Addr == al {
						if why := impureSource(st.Val, kTyp, kAttr, seen, depth+1); why != "" {
							return why
						}
					}
				}
			}
			return ""
		}
		if g := globalOf(x.X); g != nil {
			return "package variable " + g.Name()
		}
		return impureSource(x.X, kTyp, kAttr, seen, depth+1)
	case *ssa.BinOp:
		if why := impureSource(x.X, kTyp, kAttr, seen, depth+1); why != "" {
			return why
		}
		return impureSource(x.Y, kTyp, kAttr, seen, depth+1)
	case *ssa.Convert:
		return impureSource(x.X, kTyp, kAttr, seen, depth+1)
	case *ssa.ChangeType:
		return impureSource(x.X, kTyp, kAttr, seen, depth+1)
	case *ssa.Alloc:
		return ""
	case *ssa.Slice:
		return impureSource(x.X, kTyp, kAttr, seen, depth+1)
	case *ssa.Call:
		f := calleeFunc(x)
		name := "a dynamic call"
		if f != nil {
			name = f.FullName()
			recvIsType := x.Call.IsInvoke() && isNamed(x.Call.Value.Type(), "reflect", "Type")
			pureFn := recvIsType || name == "reflect.PtrTo" || name == "reflect.PointerTo" || name == "reflect.TypeOf"
			if pureFn {
				var args []ssa.Value
				if x.Call.IsInvoke() {
					args = append(args, x.Call.Value)
				}
				args = append(args, x.Call.Args...)
				for _, a := range args {
					if why := impureSource(a, kTyp, kAttr, seen, depth+1); why != "" {
						return why
					}
				}
				return ""
			}
			if strings.HasPrefix(name, "time.") {
				return "the clock (" + name + ")"
			}
		}
		return "the result of " + name
	case *ssa.Lookup:
		return "another cache/map entry"
	}
	return fmt.Sprintf("a value of kind %T", v)
}

// controllingCondsBelow: the controlling conditions that lie below the innermost dominating
// cache-hit test — everything above it decides whether the cache is consulted at all and is
// implied by the key (nil object, map fast path, "is a struct"), everything below it decides
// what is stored under the key.
func controllingCondsBelow(in ssa.Instruction, isHitTest func(ssa.Value) bool) []ssa.Value {
	var out []ssa.Value
	b := in.Block()
	for d := b.Idom(); d != nil; d = d.Idom() {
		v, _, ok := ifCond(d)
		if !ok {
			continue
		}
		if isHitTest(v) {
			return out
		}
		// d controls b iff b cannot be reached from every successor of d
		through := 0
		for _, s := range d.Succs {
			if blockReaches(s, b) {
				through++
			}
		}
		if through < len(d.Succs) {
			out = append(out, v)
		}
	}
	return nil // no hit test above the store: nothing to say
}

// controllingConds: the conditions of the If instructions on which the instruction is control
// dependent (a dominator whose two successors are not both on every path to the instruction).
func controllingConds(in ssa.Instruction) []ssa.Value {
	var out []ssa.Value
	b := in.Block()
	for d := b.Idom(); d != nil; d = d.Idom() {
		v, _, ok := ifCond(d)
		if !ok {
			continue
		}
		// the instruction's block is reached through exactly one successor of d
		through := 0
		for _, s := range d.Succs {
			if s == b || s.Dominates(b) {
				through++
			}
		}
		if through == 1 {
			out = append(out, v)
		}
	}
	return out
}

// isCacheHitTest: the comma-ok result of a lookup in the cache map under this key.
func isCacheHitTest(v ssa.Value, isCacheMap func(ssa.Value) bool, kAlloc *ssa.Alloc) bool {
	seen := map[ssa.Value]bool{}
	var walk func(v ssa.Value) bool
	walk = func(v ssa.Value) bool {
		if seen[v] {
			return true
		}
		seen[v] = true
		switch x := v.(type) {
		case *ssa.Extract:
			if lk, ok := x.Tuple.(*ssa.Lookup); ok && x.Index == 1 && isCacheMap(lk.X) {
				if ku, ok := lk.Index.(*ssa.UnOp); ok && ku.X == ssa.Value(kAlloc) {
					return true
				}
			}
		case *ssa.Phi:
			for _, e := range x.Edges {
				if !walk(e) {
					return false
				}
			}
			return true
		case *ssa.UnOp:
			if al, ok := x.X.(*ssa.Alloc); ok && al.Referrers() != nil {
				n := 0
				for _, ref := range *al.Referrers() {
					if st, ok := ref.(*ssa.Store); ok && st.Addr == al {
						n++
						if !walk(st.Val) {
							return false
						}
					}
				}
				return n > 0
			}
		case *ssa.BinOp:
			// attributeCache.currSize >= maxSize: capacity management
			return false
		}
		return false
	}
	return walk(v)
}

func blockReaches(from, to *ssa.BasicBlock) bool {
	seen := map[*ssa.BasicBlock]bool{}
	var walk func(b *ssa.BasicBlock) bool
	walk = func(b *ssa.BasicBlock) bool {
		if b == to {
			return true
		}
		if seen[b] {
			return false
		}
		seen[b] = true
		for _, s := range b.Succs {
			if walk(s) {
				return true
			}
		}
		return false
	}
	return walk(from)
}
