package main

// R05.8 — sizes handed to the allocator are never negative.
//
// make([]T, n), make([]T, n, c), make(chan T, n), reflect.MakeSlice, strings.Repeat,
// bytes.Repeat and (*Builder/*Buffer).Grow panic when a size argument is negative.  Every such
// argument that is not a constant must be non-negative by a sign argument over its SSA
// definition:
//
//	constants >= 0, len/cap, the listed counting calls, max(.., nonneg, ..), min(all nonneg),
//	+ * / % >> & of non-negative operands,
//	a - b only where a >= b is established on every path to the site (edge refinement on the
//	  branch conditions that compare the very same values),
//	phis whose every incoming value is non-negative on its edge,
//	a value tested >= 0 (or > k, != 0 for a non-negative) on every path to the site,
//	parameters all of whose in-package call sites pass a non-negative argument,
//	results of package functions all of whose returns are non-negative,
//	fields all of whose in-package stores are non-negative.
//
// Anything else — in particular a conversion of template data (toInt, type assertions), or
// arithmetic with a subtraction whose ordering is not established — is a violation.

import (
	"fmt"
	"go/constant"
	"go/token"
	"go/types"
	"strings"

	"golang.org/x/tools/go/callgraph"
	"golang.org/x/tools/go/ssa"
)

// a program point: the entry of blk, or (succ >= 0) the edge blk -> blk.Succs[succ]
type point struct {
	blk  *ssa.BasicBlock
	succ int
}

type signer struct {
	w       *World
	sizes   types.Sizes
	memoFn  map[*ssa.Function]int // 0 unknown, 1 in progress, 2 nonneg, 3 not
	memoFd  map[*types.Var]int
	stores  map[*types.Var][]*ssa.Store
	cg      *callgraph.Graph
	lenMemo map[string]int
}

func newSigner(w *World) *signer {
	s := &signer{w: w, memoFn: map[*ssa.Function]int{}, memoFd: map[*types.Var]int{}, stores: map[*types.Var][]*ssa.Store{}}
	s.sizes = w.Pkg.TypesSizes
	for _, fn := range w.pkgFuncs() {
		instrsOf(fn, func(in ssa.Instruction) {
			st, ok := in.(*ssa.Store)
			if !ok {
				return
			}
			if fa, ok := st.Addr.(*ssa.FieldAddr); ok {
				if fv := fieldVar(fa); fv != nil {
					s.stores[fv] = append(s.stores[fv], st)
				}
			}
		})
	}
	return s
}

func fieldVar(fa *ssa.FieldAddr) *types.Var {
	t := fa.X.Type()
	if p, ok := t.Underlying().(*types.Pointer); ok {
		t = p.Elem()
	}
	st, ok := t.Underlying().(*types.Struct)
	if !ok || fa.Field >= st.NumFields() {
		return nil
	}
	return st.Field(fa.Field)
}

// countingCalls: results that are counts by their documentation.
var countingCalls = map[string]bool{
	"(reflect.Value).Len": true, "(reflect.Value).NumField": true, "(reflect.Value).NumMethod": true, "(reflect.Value).Cap": true,
	"(reflect.Type).NumField": true, "(reflect.Type).NumMethod": true, "(reflect.Type).NumIn": true, "(reflect.Type).NumOut": true, "(reflect.Type).Len": true,
	"(*bytes.Buffer).Len": true, "(*bytes.Buffer).Cap": true, "(*strings.Builder).Len": true, "(*strings.Builder).Cap": true,
	"(*bytes.Reader).Len": true, "(*strings.Reader).Len": true,
	"unicode/utf8.RuneCountInString": true, "unicode/utf8.RuneCount": true, "unicode/utf8.RuneLen": false,
	"strings.Count": true, "bytes.Count": true,
}

func intConst(v ssa.Value) (int64, bool) {
	c, ok := v.(*ssa.Const)
	if !ok || c.Value == nil || c.Value.Kind() != constant.Int {
		return 0, false
	}
	return constant.Int64Val(c.Value)
}

// established: on every path to pt, v >= other + k holds by branch conditions (other == nil: v >= k).
func (s *signer) established(fn *ssa.Function, v, other ssa.Value, k int64, pt point, vNonNeg bool) bool {
	if len(fn.Blocks) == 0 {
		return false
	}
	fl := &boolFlow{fn: fn, entry: false}
	fl.edge = func(blk *ssa.BasicBlock, i int) bool {
		return anyEdgeFact(blk, i, func(c ssa.Value, trueIdx int) bool {
			cmp, ok := c.(*ssa.BinOp)
			if !ok {
				return false
			}
			x, y, op := cmp.X, cmp.Y, cmp.Op
			flip := func() {
				x, y = y, x
				switch op {
				case token.LSS:
					op = token.GTR
				case token.GTR:
					op = token.LSS
				case token.LEQ:
					op = token.GEQ
				case token.GEQ:
					op = token.LEQ
				}
			}
			if !sameValue(x, v) && sameValue(y, v) {
				flip()
			}
			if !sameValue(x, v) {
				return false
			}
			onTrue := i == trueIdx
			// bound: x op y  gives  x >= y + d
			var d int64
			switch {
			case op == token.GTR && onTrue, op == token.LEQ && !onTrue:
				d = 1
			case op == token.GEQ && onTrue, op == token.LSS && !onTrue, op == token.EQL && onTrue, op == token.NEQ && !onTrue:
				d = 0
			case (op == token.NEQ && onTrue || op == token.EQL && !onTrue) && other == nil && vNonNeg:
				// v != 0 for a non-negative v: v >= 1
				if c, ok := intConst(y); ok && c == 0 {
					return 1 >= k
				}
				return false
			default:
				return false
			}
			if other == nil {
				if c, ok := intConst(y); ok {
					return c+d >= k
				}
				// v >= y + d for a y that is a count: v >= d
				if isCount(y) {
					return d >= k
				}
				return false
			}
			if sameValue(y, other) {
				return d >= k
			}
			// y = other + c
			if bo, ok := y.(*ssa.BinOp); ok && bo.Op == token.ADD {
				if c, ok := intConst(bo.Y); ok && sameValue(bo.X, other) {
					return c+d >= k
				}
			}
			return false
		})
	}
	fl.solve()
	if pt.succ < 0 {
		return fl.in[pt.blk]
	}
	return fl.in[pt.blk] || fl.edge(pt.blk, pt.succ)
}

type signQuery struct {
	pairs map[phiPair]bool
	seen  map[ssa.Value]bool
	depth int
	why   []string
}

func (q *signQuery) fail(v ssa.Value, msg string) bool {
	if len(q.why) < 3 {
		q.why = append(q.why, fmt.Sprintf("%s: %s", v.Name(), msg))
	}
	return false
}

// atLeast: v >= k at pt (k is 0 or 1 in practice).
func (s *signer) atLeast(v ssa.Value, k int64, pt point, q *signQuery) bool {
	fn := pt.blk.Parent()
	if c, ok := intConst(v); ok {
		if c >= k {
			return true
		}
		return q.fail(v, fmt.Sprintf("constant %d", c))
	}
	if _, isC := v.(*ssa.Const); isC {
		return q.fail(v, "non-integer constant")
	}
	if k <= 0 {
		if b, ok := v.Type().Underlying().(*types.Basic); ok && b.Info()&types.IsUnsigned != 0 {
			return true
		}
	}
	if q.seen[v] {
		return true // inductive hypothesis for cycles through phis / fields
	}
	q.seen[v] = true
	defer delete(q.seen, v)

	// a test on every path
	if s.established(fn, v, nil, k, pt, false) {
		return true
	}
	switch x := v.(type) {
	case *ssa.Call:
		if b, ok := x.Call.Value.(*ssa.Builtin); ok {
			switch b.Name() {
			case "len", "cap":
				if k <= 0 {
					return true
				}
				return q.fail(v, "length not known to be positive")
			case "max":
				for _, a := range x.Call.Args {
					if s.atLeast(a, k, pt, &signQuery{seen: q.seen, depth: q.depth}) {
						return true
					}
				}
				return q.fail(v, "no argument of max is known non-negative")
			case "min":
				for _, a := range x.Call.Args {
					if !s.atLeast(a, k, pt, q) {
						return false
					}
				}
				return true
			}
			return q.fail(v, "builtin "+b.Name())
		}
		if f := calleeFunc(x); f != nil {
			if countingCalls[f.FullName()] && k <= 0 {
				return true
			}
			if sf := x.Call.StaticCallee(); sf != nil && f.Pkg() != nil && f.Pkg().Path() == twigPath && k <= 0 {
				if s.funcNonNeg(sf, 0, q) {
					return true
				}
				return q.fail(v, "result of "+f.Name()+" is not non-negative on every return")
			}
			return q.fail(v, "result of "+f.FullName()+" has no sign guarantee")
		}
		return q.fail(v, "dynamic call")
	case *ssa.BinOp:
		switch x.Op {
		case token.ADD:
			if c, ok := intConst(x.Y); ok {
				return s.atLeast(x.X, k-c, pt, q)
			}
			if c, ok := intConst(x.X); ok {
				return s.atLeast(x.Y, k-c, pt, q)
			}
			if k <= 0 {
				return s.atLeast(x.X, 0, pt, q) && s.atLeast(x.Y, 0, pt, q)
			}
			return (s.atLeast(x.X, k, pt, q) && s.atLeast(x.Y, 0, pt, q)) || (s.atLeast(x.X, 0, pt, q) && s.atLeast(x.Y, k, pt, q))
		case token.MUL:
			if k <= 0 {
				return s.atLeast(x.X, 0, pt, q) && s.atLeast(x.Y, 0, pt, q)
			}
			return s.atLeast(x.X, 1, pt, q) && s.atLeast(x.Y, 1, pt, q)
		case token.QUO:
			if k <= 0 {
				return s.atLeast(x.X, 0, pt, q) && s.atLeast(x.Y, 0, pt, q)
			}
		case token.REM:
			if k <= 0 {
				return s.atLeast(x.X, 0, pt, q)
			}
		case token.SHR:
			if k <= 0 {
				return s.atLeast(x.X, 0, pt, q)
			}
		case token.AND:
			if k <= 0 {
				if s.atLeast(x.X, 0, pt, &signQuery{seen: q.seen}) || s.atLeast(x.Y, 0, pt, &signQuery{seen: q.seen}) {
					return true
				}
			}
		case token.SUB:
			if c, ok := intConst(x.Y); ok {
				return s.atLeast(x.X, k+c, pt, q)
			}
			if s.geValue(x.X, x.Y, k, pt, q, 0) {
				return true
			}
			return q.fail(v, "difference whose operands are not ordered by a test on every path")
		}
		return q.fail(v, "operator "+x.Op.String())
	case *ssa.UnOp:
		if x.Op == token.MUL {
			// load of a spilled local stored once
			if u := unspill(v); u != v {
				if st := singleStore(x.X.(*ssa.Alloc)); st != nil {
					return s.atLeast(u, k, point{st.Block(), -1}, q)
				}
			}
			if fa, ok := x.X.(*ssa.FieldAddr); ok && k <= 0 {
				if fv := fieldVar(fa); fv != nil {
					if s.fieldNonNeg(fv, q) {
						return true
					}
					return q.fail(v, "field "+fv.Name()+" is stored a value without sign guarantee somewhere in the package")
				}
			}
			// local variable with several stores: every store non-negative
			if al, ok := x.X.(*ssa.Alloc); ok && al.Referrers() != nil {
				n := 0
				for _, ref := range *al.Referrers() {
					switch st := ref.(type) {
					case *ssa.Store:
						if st.Addr != al {
							return q.fail(v, "address escapes")
						}
						n++
						if !s.atLeast(st.Val, k, point{st.Block(), -1}, q) {
							return false
						}
					case *ssa.UnOp, *ssa.DebugRef:
					case *ssa.MakeClosure:
						cf, _ := st.Fn.(*ssa.Function)
						if cf == nil {
							return q.fail(v, "captured")
						}
						for i, b := range st.Bindings {
							if b == al && i < len(cf.FreeVars) && cf.FreeVars[i].Referrers() != nil {
								for _, fr := range *cf.FreeVars[i].Referrers() {
									if cs, ok := fr.(*ssa.Store); ok {
										n++
										if !s.atLeast(cs.Val, k, point{cs.Block(), -1}, q) {
											return false
										}
									}
								}
							}
						}
					default:
						return q.fail(v, "address escapes")
					}
				}
				if n > 0 || k <= 0 {
					return true // zero-initialised
				}
			}
		}
		return q.fail(v, "load without sign guarantee")
	case *ssa.Phi:
		for i, e := range x.Edges {
			pred := x.Block().Preds[i]
			ok := false
			for si, sc := range pred.Succs {
				if sc == x.Block() {
					if s.atLeast(e, k, point{pred, si}, q) {
						ok = true
					}
				}
			}
			if !ok {
				return false
			}
		}
		return true
	case *ssa.Convert:
		src, ok1 := x.X.Type().Underlying().(*types.Basic)
		dst, ok2 := x.Type().Underlying().(*types.Basic)
		if ok1 && ok2 && src.Info()&types.IsInteger != 0 && dst.Info()&types.IsInteger != 0 {
			ss, ds := s.sizes.Sizeof(src), s.sizes.Sizeof(dst)
			if src.Info()&types.IsUnsigned != 0 {
				if ss < ds || dst.Info()&types.IsUnsigned != 0 {
					return k <= 0 || s.atLeast(x.X, k, pt, q)
				}
				return q.fail(v, fmt.Sprintf("conversion of %s to %s can wrap to a negative value", src, dst))
			}
			if ds >= ss {
				return s.atLeast(x.X, k, pt, q)
			}
		}
		return q.fail(v, "conversion without sign guarantee")
	case *ssa.Parameter:
		if k > 0 {
			return q.fail(v, "parameter")
		}
		return s.paramNonNeg(x, q)
	case *ssa.FreeVar:
		return q.fail(v, "captured variable")
	}
	return q.fail(v, fmt.Sprintf("%T without sign guarantee", v))
}

// isCount: len/cap or one of the counting calls.
func isCount(v ssa.Value) bool {
	c, ok := v.(*ssa.Call)
	if !ok {
		return false
	}
	if b, ok := c.Call.Value.(*ssa.Builtin); ok {
		return b.Name() == "len" || b.Name() == "cap"
	}
	if f := calleeFunc(c); f != nil {
		return countingCalls[f.FullName()]
	}
	return false
}

// geValue: a >= b + k at pt.
func (s *signer) geValue(a, b ssa.Value, k int64, pt point, q *signQuery, depth int) bool {
	if depth > 6 {
		return false
	}
	if k <= 0 && sameValue(a, b) {
		return true
	}
	if s.established(pt.blk.Parent(), a, b, k, pt, false) {
		return true
	}
	// two results of one call of a package function: the relation holds at every return of it
	if ea, ok := a.(*ssa.Extract); ok {
		if eb, ok := b.(*ssa.Extract); ok && ea.Tuple == eb.Tuple {
			if c, ok := ea.Tuple.(*ssa.Call); ok {
				if g := c.Call.StaticCallee(); g != nil && isTwigFn(g) && len(g.Blocks) > 0 && depth < 4 {
					all, n := true, 0
					instrsOf(g, func(in ssa.Instruction) {
						ret, isRet := in.(*ssa.Return)
						if !isRet || !all {
							return
						}
						res := retResults(ret)
						if ea.Index >= len(res) || eb.Index >= len(res) {
							all = false
							return
						}
						n++
						ra, rb := res[ea.Index], res[eb.Index]
						if ca, ok := intConst(ra); ok {
							if cb, ok := intConst(rb); ok && ca >= cb+k {
								return
							}
						}
						if !s.geValue(ra, rb, k, point{ret.Block(), -1}, &signQuery{seen: map[ssa.Value]bool{}, depth: q.depth + 1}, depth+1) {
							all = false
						}
					})
					if all && n > 0 {
						return true
					}
				}
			}
		}
	}
	// max(…, b', …) >= b when some argument is; min(…) >= b when every argument is
	if c, ok := a.(*ssa.Call); ok {
		if bi, ok := c.Call.Value.(*ssa.Builtin); ok && depth < 6 {
			switch bi.Name() {
			case "max":
				for _, arg := range c.Call.Args {
					if s.geValue(arg, b, k, pt, q, depth+1) {
						return true
					}
				}
			case "min":
				all := len(c.Call.Args) > 0
				for _, arg := range c.Call.Args {
					if !s.geValue(arg, b, k, pt, q, depth+1) {
						all = false
					}
				}
				if all {
					return true
				}
			}
		}
	}
	// a >= max(…) is not needed so far; a >= b where b = min(…, a', …) with a >= a'
	if c, ok := b.(*ssa.Call); ok {
		if bi, ok := c.Call.Value.(*ssa.Builtin); ok && bi.Name() == "min" && depth < 6 {
			for _, arg := range c.Call.Args {
				if s.geValue(a, arg, k, pt, q, depth+1) {
					return true
				}
			}
		}
	}
	switch x := a.(type) {
	case *ssa.Phi:
		key := phiPair{x, b}
		if q.pairs == nil {
			q.pairs = map[phiPair]bool{}
		}
		if q.pairs[key] {
			return true
		}
		q.pairs[key] = true
		defer delete(q.pairs, key)
		for i, e := range x.Edges {
			pred := x.Block().Preds[i]
			ok := false
			for si, sc := range pred.Succs {
				if sc == x.Block() && s.geValue(e, b, k, point{pred, si}, q, depth+1) {
					ok = true
				}
			}
			if !ok {
				return false
			}
		}
		return true
	case *ssa.BinOp:
		if x.Op == token.ADD {
			// b + nonneg
			if sameValue(x.X, b) && s.atLeast(x.Y, k, pt, &signQuery{seen: map[ssa.Value]bool{}, depth: q.depth}) {
				return true
			}
			if sameValue(x.Y, b) && s.atLeast(x.X, k, pt, &signQuery{seen: map[ssa.Value]bool{}, depth: q.depth}) {
				return true
			}
		}
	}
	// b itself is a phi: a >= every incoming value is not a sound reading at pt (the phi may
	// be in another block); not attempted.
	return false
}

type phiPair struct {
	p *ssa.Phi
	b ssa.Value
}

func (s *signer) funcNonNeg(fn *ssa.Function, idx int, q *signQuery) bool {
	switch s.memoFn[fn] {
	case 1, 2:
		return true
	case 3:
		return false
	}
	if q.depth > 4 || len(fn.Blocks) == 0 {
		return false
	}
	s.memoFn[fn] = 1
	ok := true
	instrsOf(fn, func(in ssa.Instruction) {
		ret, isRet := in.(*ssa.Return)
		if !isRet || !ok {
			return
		}
		res := retResults(ret)
		if idx >= len(res) {
			ok = false
			return
		}
		if !s.atLeast(res[idx], 0, point{ret.Block(), -1}, &signQuery{seen: map[ssa.Value]bool{}, depth: q.depth + 1}) {
			ok = false
		}
	})
	if ok {
		s.memoFn[fn] = 2
	} else {
		s.memoFn[fn] = 3
	}
	return ok
}

func (s *signer) fieldNonNeg(fv *types.Var, q *signQuery) bool {
	switch s.memoFd[fv] {
	case 1, 2:
		return true
	case 3:
		return false
	}
	if q.depth > 4 {
		return false
	}
	s.memoFd[fv] = 1
	ok := true
	for _, st := range s.stores[fv] {
		if !s.atLeast(st.Val, 0, point{st.Block(), -1}, &signQuery{seen: map[ssa.Value]bool{}, depth: q.depth + 1}) {
			ok = false
			break
		}
	}
	// fields initialised in composite literals are Stores through FieldAddr as well (go/ssa
	// expands literals), so they are in s.stores.
	if ok {
		s.memoFd[fv] = 2
	} else {
		s.memoFd[fv] = 3
	}
	return ok
}

func (s *signer) paramNonNeg(p *ssa.Parameter, q *signQuery) bool {
	if q.depth > 4 {
		return q.fail(p, "call chain too deep")
	}
	fn := p.Parent()
	idx := -1
	for i, pp := range fn.Params {
		if pp == p {
			idx = i
		}
	}
	if idx < 0 {
		return q.fail(p, "parameter not found")
	}
	if s.cg == nil {
		s.cg = s.w.callgraph()
	}
	node := s.cg.Nodes[fn]
	if node == nil || len(node.In) == 0 {
		return q.fail(p, "parameter of a function without in-package callers")
	}
	n := 0
	for _, e := range node.In {
		if e.Site == nil || e.Caller.Func.Package() != fn.Package() {
			continue
		}
		cc := e.Site.Common()
		args := cc.Args
		ai := idx
		if cc.IsInvoke() {
			ai = idx - 1
		}
		if ai < 0 || ai >= len(args) {
			return q.fail(p, "call site with a different shape")
		}
		if e.Site.Block() == nil {
			continue
		}
		n++
		sub := &signQuery{seen: map[ssa.Value]bool{}, depth: q.depth + 1}
		if !s.atLeast(args[ai], 0, point{e.Site.Block(), -1}, sub) {
			q.why = append(q.why, fmt.Sprintf("argument at %s: %v", s.w.posOf(e.Site.Pos()), sub.why))
			return false
		}
	}
	if n == 0 {
		return q.fail(p, "parameter of a function without in-package callers")
	}
	return true
}

// sizeSinks: the arguments of in that must be non-negative.
func sizeSinks(in ssa.Instruction) (what string, vals []ssa.Value) {
	switch x := in.(type) {
	case *ssa.MakeSlice:
		return "make([]T, len, cap)", []ssa.Value{x.Len, x.Cap}
	case *ssa.MakeChan:
		return "make(chan T, size)", []ssa.Value{x.Size}
	case ssa.CallInstruction:
		f := calleeFunc(x)
		if f == nil {
			return "", nil
		}
		args := x.Common().Args
		switch f.FullName() {
		case "strings.Repeat", "bytes.Repeat":
			return f.FullName(), []ssa.Value{args[1]}
		case "(*strings.Builder).Grow", "(*bytes.Buffer).Grow":
			return f.FullName(), []ssa.Value{args[1]}
		case "reflect.MakeSlice":
			return f.FullName(), []ssa.Value{args[1], args[2]}
		case "reflect.MakeMapWithSize", "reflect.MakeChan":
			if f.Name() == "MakeChan" {
				return f.FullName(), []ssa.Value{args[1]}
			}
		}
	}
	return "", nil
}

// pairedCounters: fields that count the entries of a container and move with it; that they are
// never negative is an invariant between two fields, not a sign fact.  One line of reason each.
var pairedCounters = map[string]string{
	"currSize": "attributeCache.currSize is incremented with every insertion into attributeCache.m and decremented once per deleted entry (bounded by len(entries)), all under the write lock; it is only a capacity hint here",
}

func pairedCounter(v ssa.Value) (string, bool) {
	u, ok := v.(*ssa.UnOp)
	if !ok || u.Op != token.MUL {
		return "", false
	}
	fa, ok := u.X.(*ssa.FieldAddr)
	if !ok {
		return "", false
	}
	if fv := fieldVar(fa); fv != nil {
		why, ok := pairedCounters[fv.Name()]
		return why, ok
	}
	return "", false
}

func checkSizes(w *World, r *Report) {
	s := newSigner(w)
	n, nonTrivial := 0, 0
	var entry []*ssa.Function
	for _, m := range []string{"Render", "RenderTo", "Load", "ParseTemplate", "RegisterString", "RegisterTemplate", "LoadFromCompiledData", "CompileTemplate"} {
		if f := w.tryMethod("Engine", m); f != nil {
			entry = append(entry, w.ssaFunc(f))
		}
	}
	for _, nm := range []string{"DeserializeCompiledTemplate", "LoadFromCompiled", "SerializeCompiledTemplate"} {
		if f := w.tryFn(nm); f != nil {
			entry = append(entry, w.ssaFunc(f))
		}
	}
	reachRoots := w.reachableFrom(entry)
	for _, fn := range w.pkgFuncs() {
		instrsOf(fn, func(in ssa.Instruction) {
			what, vals := sizeSinks(in)
			if what == "" {
				return
			}
			for i, v := range vals {
				if v == nil {
					continue
				}
				if c, ok := intConst(v); ok && c >= 0 {
					continue
				}
				n++
				construct := fmt.Sprintf("size argument %d of %s", i, what)
				if why, ok := pairedCounter(v); ok {
					r.except("R05.8", ssaName(fn), construct, w.posOf(in.Pos()), why)
					continue
				}
				q := &signQuery{seen: map[ssa.Value]bool{}}
				if s.atLeast(v, 0, point{in.Block(), -1}, q) {
					_, plain := v.(*ssa.Call)
					if !plain {
						nonTrivial++
					}
					r.ok("R05.8", ssaName(fn), construct, w.posOf(in.Pos()), "non-negative by the sign rules (counts, ordered differences, tests on every path, call sites)", !plain)
				} else if strings.Contains(fmt.Sprint(q.why), "parameter of a function without in-package callers") && !reachRoots[fn] {
					// an exported utility that no parse, render, load or compiled-data path
					// reaches: the size is the Go caller's own number, not template or context data
					r.ok("R05.8", ssaName(fn), construct, w.posOf(in.Pos()), "size supplied by the Go caller of an exported utility that is not reachable from any parse/render/load entry point (outside the property's inputs)", false)
				} else {
					r.bad("R05.8", ssaName(fn), construct, w.posOf(in.Pos()), fmt.Sprintf("the size can be negative (%v): the allocation panics instead of returning an error", q.why))
				}
			}
		})
	}
	r.Counts["non-constant allocation sizes"] = n
	r.floor("non-constant allocation sizes", n, 15)
}

// ---------------------------------------------------------------- R05.9
//
// "Strip the delimiters / take the last element": x[a : len(x)-k] and x[len(x)-k] need
// len(x) >= a+k (resp. k) on every path.  Accepted evidence: a comparison of len(x) with a
// constant, x != "" (k = 1), strings.HasPrefix/HasSuffix(x, constant) with a constant at least
// that long — on every path to the site (must-analysis with edge refinement).

func lenOperand(v ssa.Value) (ssa.Value, bool) {
	c, ok := v.(*ssa.Call)
	if !ok {
		return nil, false
	}
	if b, ok := c.Call.Value.(*ssa.Builtin); ok && b.Name() == "len" && len(c.Call.Args) == 1 {
		return c.Call.Args[0], true
	}
	return nil, false
}

// lenMinus: v == len(x) - k ?
func lenMinus(v ssa.Value) (x ssa.Value, k int64, ok bool) {
	bo, isB := v.(*ssa.BinOp)
	if !isB || bo.Op != token.SUB {
		return nil, 0, false
	}
	k, isC := intConst(bo.Y)
	if !isC || k <= 0 {
		return nil, 0, false
	}
	x, ok = lenOperand(bo.X)
	return x, k, ok
}

func (s *signer) lenAtLeast(fn *ssa.Function, x ssa.Value, n int64, at *ssa.BasicBlock) bool {
	fl := &boolFlow{fn: fn, entry: false}
	var lenVal ssa.Value
	fl.edge = func(blk *ssa.BasicBlock, i int) bool {
		return anyEdgeFact(blk, i, func(c ssa.Value, trueIdx int) bool {
			onTrue := i == trueIdx
			switch cv := c.(type) {
			case *ssa.Call:
				// isQuoted(x): a predicate of the package whose every result that can be true is
				// produced where len(param) >= n is established
				if g := cv.Call.StaticCallee(); g != nil && onTrue && isTwigFn(g) && len(g.Blocks) > 0 && g != fn {
					for ai, a := range cv.Call.Args {
						if ai < len(g.Params) && sameValue(a, x) && s.trueImpliesLen(g, ai, n) {
							return true
						}
					}
				}
				if f := calleeFunc(cv); f != nil && onTrue {
					switch f.FullName() {
					case "strings.HasPrefix", "strings.HasSuffix", "bytes.HasPrefix", "bytes.HasSuffix":
						if sameValue(cv.Call.Args[0], x) {
							if p, ok := constString(cv.Call.Args[1]); ok && int64(len(p)) >= n {
								return true
							}
						}
					}
				}
			case *ssa.BinOp:
				// x != ""  /  x == ""
				if n <= 1 {
					for _, pr := range [][2]ssa.Value{{cv.X, cv.Y}, {cv.Y, cv.X}} {
						if sameValue(pr[0], x) {
							if str, ok := constString(pr[1]); ok && str == "" {
								if (cv.Op == token.NEQ && onTrue) || (cv.Op == token.EQL && !onTrue) {
									return true
								}
							}
						}
					}
				}
			}
			return false
		})
	}
	_ = lenVal
	fl.solve()
	if fl.in[at] {
		return true
	}
	// HasPrefix(x, p) and HasSuffix(x, s) both hold and p, s cannot share characters of x
	// (no suffix of p is a prefix of s): len(x) >= len(p)+len(s).  `"` + `"` overlaps, `{` + `}`
	// does not.
	holds := func(fname, lit string) bool {
		f2 := &boolFlow{fn: fn, entry: false}
		f2.edge = func(blk *ssa.BasicBlock, i int) bool {
			return anyEdgeFact(blk, i, func(c ssa.Value, trueIdx int) bool {
				if i != trueIdx {
					return false
				}
				cv, ok := c.(*ssa.Call)
				if !ok {
					return false
				}
				f := calleeFunc(cv)
				if f == nil || f.FullName() != fname || !sameValue(cv.Call.Args[0], x) {
					return false
				}
				p, ok := constString(cv.Call.Args[1])
				return ok && p == lit
			})
		}
		f2.solve()
		return f2.in[at]
	}
	var pre, suf []string
	instrsOf(fn, func(in ssa.Instruction) {
		cv, ok := in.(*ssa.Call)
		if !ok {
			return
		}
		f := calleeFunc(cv)
		if f == nil || len(cv.Call.Args) != 2 || !sameValue(cv.Call.Args[0], x) {
			return
		}
		lit, ok := constString(cv.Call.Args[1])
		if !ok {
			return
		}
		switch f.FullName() {
		case "strings.HasPrefix":
			pre = append(pre, lit)
		case "strings.HasSuffix":
			suf = append(suf, lit)
		}
	})
	for _, p := range pre {
		for _, sx := range suf {
			if int64(len(p)+len(sx)) < n {
				continue
			}
			overlap := false
			for k := 1; k <= len(p) && k <= len(sx); k++ {
				if p[len(p)-k:] == sx[:k] {
					overlap = true
				}
			}
			if !overlap && holds("strings.HasPrefix", p) && holds("strings.HasSuffix", sx) {
				return true
			}
		}
	}
	// comparisons of len(x) with constants: find any len(x) value of the same operand and ask
	// the integer engine
	found := false
	instrsOf(fn, func(in ssa.Instruction) {
		if found {
			return
		}
		if c, ok := in.(*ssa.Call); ok {
			if op, ok := lenOperand(c); ok && sameValue(op, x) {
				if s.established(fn, c, nil, n, point{at, -1}, true) {
					found = true
				}
			}
		}
	})
	return found
}

func checkLenMinus(w *World, r *Report) {
	s := newSigner(w)
	n := 0
	for _, fn := range w.pkgFuncs() {
		instrsOf(fn, func(in ssa.Instruction) {
			var x ssa.Value
			var need int64
			var construct string
			switch v := in.(type) {
			case *ssa.Slice:
				if v.High == nil {
					return
				}
				hx, k, ok := lenMinus(v.High)
				if !ok || !sameValue(hx, v.X) {
					return
				}
				low := int64(0)
				if v.Low != nil {
					c, isC := intConst(v.Low)
					if !isC {
						return // a computed lower bound: ordering of two variables, not this idiom
					}
					low = c
				}
				x, need = v.X, k+low
				construct = fmt.Sprintf("x[%d:len(x)-%d]", low, k)
			case *ssa.Index:
				ix, k, ok := lenMinus(v.Index)
				if !ok || !sameValue(ix, v.X) {
					return
				}
				x, need, construct = v.X, k, fmt.Sprintf("x[len(x)-%d]", k)
			case *ssa.IndexAddr:
				ix, k, ok := lenMinus(v.Index)
				if !ok || !sameValue(ix, v.X) {
					return
				}
				x, need, construct = v.X, k, fmt.Sprintf("x[len(x)-%d]", k)
			case *ssa.Lookup:
				ix, k, ok := lenMinus(v.Index)
				if !ok || !sameValue(ix, v.X) {
					return
				}
				x, need, construct = v.X, k, fmt.Sprintf("x[len(x)-%d]", k)
			default:
				return
			}
			n++
			if s.lenAtLeast(fn, x, need, in.Block()) {
				r.ok("R05.9", ssaName(fn), construct, w.posOf(in.Pos()), fmt.Sprintf("len(x) >= %d on every path to the site", need), true)
			} else {
				r.bad("R05.9", ssaName(fn), construct, w.posOf(in.Pos()), fmt.Sprintf("the operand is not known to have at least %d elements on every path: a shorter input (a lone quote, an empty list) makes the bounds cross and the expression panics", need))
			}
		})
	}
	r.Counts["len(x)-k bounds"] = n
}

// ---------------------------------------------------------------- R05.10
//
// An offset found in one string is only used to cut that string.  strings.Index & co. return
// byte offsets into their haystack; if the haystack is a transformed copy (ToLower, ToUpper,
// Replace, TrimSpace, …) of the string that is then sliced, the offset can lie beyond its end
// (case mapping changes byte lengths: "Ⱥ" is 2 bytes, "ⱥ" 3) and the slice expression panics.

var indexFuncs = map[string]bool{
	"strings.Index": true, "strings.IndexByte": true, "strings.IndexRune": true, "strings.IndexAny": true,
	"strings.LastIndex": true, "strings.LastIndexByte": true, "strings.LastIndexAny": true, "strings.IndexFunc": true,
	"bytes.Index": true, "bytes.IndexByte": true, "bytes.LastIndex": true, "bytes.IndexAny": true,
}

// sliceRoot: the string a value is a sub-slice of (peels s[a:b] and spilled locals).
func sliceRoot(v ssa.Value) ssa.Value {
	for i := 0; i < 8; i++ {
		switch x := v.(type) {
		case *ssa.Slice:
			v = x.X
			continue
		case *ssa.UnOp:
			if u := unspill(x); u != ssa.Value(x) {
				v = u
				continue
			}
		}
		break
	}
	return v
}

// indexOrigins: the strings.Index-family calls a bound value is computed from.
func indexOrigins(v ssa.Value, seen map[ssa.Value]bool, depth int, out *[]*ssa.Call) {
	if seen[v] || depth > 8 {
		return
	}
	seen[v] = true
	switch x := v.(type) {
	case *ssa.Call:
		if f := calleeFunc(x); f != nil && indexFuncs[f.FullName()] {
			*out = append(*out, x)
		}
	case *ssa.BinOp:
		indexOrigins(x.X, seen, depth+1, out)
		indexOrigins(x.Y, seen, depth+1, out)
	case *ssa.Phi:
		for _, e := range x.Edges {
			indexOrigins(e, seen, depth+1, out)
		}
	case *ssa.Convert:
		indexOrigins(x.X, seen, depth+1, out)
	case *ssa.UnOp:
		if al, ok := x.X.(*ssa.Alloc); ok && al.Referrers() != nil {
			for _, ref := range *al.Referrers() {
				if st, ok := ref.(*ssa.Store); ok && st.Addr == al {
					indexOrigins(st.Val, seen, depth+1, out)
				}
			}
		}
	}
}

func checkOffsetProvenance(w *World, r *Report, reach map[*ssa.Function]bool) {
	n := 0
	for _, fn := range w.pkgFuncs() {
		if !reach[fn] {
			continue
		}
		instrsOf(fn, func(in ssa.Instruction) {
			sl, ok := in.(*ssa.Slice)
			if !ok {
				return
			}
			if b, ok := sl.X.Type().Underlying().(*types.Basic); !ok || b.Info()&types.IsString == 0 {
				return
			}
			var calls []*ssa.Call
			for _, bound := range []ssa.Value{sl.Low, sl.High} {
				if bound != nil {
					indexOrigins(bound, map[ssa.Value]bool{}, 0, &calls)
				}
			}
			if len(calls) == 0 {
				return
			}
			target := sliceRoot(sl.X)
			for _, c := range calls {
				n++
				hay := sliceRoot(c.Call.Args[0])
				construct := "offset used to cut a string was found in that string"
				if sameValue(hay, target) {
					r.ok("R05.10", ssaName(fn), construct, w.posOf(in.Pos()), "haystack of "+calleeFunc(c).Name()+" and the sliced string are the same value", false)
					continue
				}
				// a transformed copy?
				desc := "another string"
				if hc, ok := hay.(*ssa.Call); ok {
					if f := calleeFunc(hc); f != nil {
						desc = "the result of " + f.FullName()
						// transformations of the sliced string itself are the dangerous case;
						// offsets into an unrelated string are not this rule's business
						related := false
						for _, a := range hc.Call.Args {
							if sameValue(sliceRoot(a), target) {
								related = true
							}
						}
						if !related {
							n--
							continue
						}
					}
				} else {
					n--
					continue
				}
				r.bad("R05.10", ssaName(fn), construct, w.posOf(in.Pos()), fmt.Sprintf("the offset comes from %s(%s), but it cuts the original string: the transformation can change byte lengths (lower-casing \"Ⱥ\" grows it from 2 to 3 bytes), so the offset can exceed the original's length and the slice expression panics", calleeFunc(c).Name(), desc))
			}
		})
	}
	r.Counts["string cuts at offsets found by an index search"] = n
}

// checkNarrowBounds — R05.12: positions in input data are computed in int.  A slice bound or
// index that is the result of an addition/subtraction/multiplication carried out in a fixed-width
// unsigned type (uint8, uint16, uint32) with a non-constant operand can wrap around: `end :=
// off + n; if end > uint32(len(data))` passes for n near 2^32, and data[off:end] panics with the
// bounds crossed.  Obligation: every Slice/Index/IndexAddr bound of the package (after
// conversions); such arithmetic must not feed it.
func checkNarrowBounds(w *World, r *Report) {
	narrow := func(t types.Type) bool {
		b, ok := t.Underlying().(*types.Basic)
		if !ok {
			return false
		}
		switch b.Kind() {
		case types.Uint8, types.Uint16, types.Uint32, types.Int8, types.Int16, types.Int32:
			return true
		}
		return false
	}
	var wraps func(v ssa.Value, d int) string
	wraps = func(v ssa.Value, d int) string {
		if d > 6 {
			return ""
		}
		switch x := v.(type) {
		case *ssa.Convert:
			return wraps(x.X, d+1)
		case *ssa.ChangeType:
			return wraps(x.X, d+1)
		case *ssa.Phi:
			for _, e := range x.Edges {
				if e == ssa.Value(x) {
					continue
				}
				if s := wraps(e, d+1); s != "" {
					return s
				}
			}
		case *ssa.UnOp:
			if u := unspill(x); u != ssa.Value(x) {
				return wraps(u, d+1)
			}
		case *ssa.BinOp:
			switch x.Op {
			case token.ADD, token.SUB, token.MUL, token.SHL:
			default:
				return ""
			}
			if !narrow(x.Type()) {
				return ""
			}
			_, cx := x.X.(*ssa.Const)
			_, cy := x.Y.(*ssa.Const)
			if cx && cy {
				return ""
			}
			return x.Type().String() + " " + x.Op.String()
		}
		return ""
	}
	n, bad := 0, 0
	for _, fn := range w.pkgFuncs() {
		instrsOf(fn, func(in ssa.Instruction) {
			var bounds []ssa.Value
			switch x := in.(type) {
			case *ssa.Slice:
				bounds = []ssa.Value{x.Low, x.High, x.Max}
			case *ssa.Index:
				bounds = []ssa.Value{x.Index}
			case *ssa.IndexAddr:
				bounds = []ssa.Value{x.Index}
			default:
				return
			}
			for _, b := range bounds {
				if b == nil {
					continue
				}
				n++
				if how := wraps(b, 0); how != "" {
					bad++
					r.bad("R05.12", ssaName(fn), "bound computed in int, not in a narrower type", w.posOf(in.Pos()), "the bound of this slice/index expression comes out of "+how+" arithmetic with a non-constant operand: the sum wraps around for large operands (a length prefix near the top of the range), passes the range check that follows it, and the slice expression panics with crossed bounds")
				}
			}
		})
	}
	if bad == 0 {
		r.ok("R05.12", "(package)", "no slice or index bound is computed in a fixed-width narrow type", "-", fmt.Sprintf("%d bounds inspected", n), false)
	}
}

// checkLookaround — R05.13: a look-ahead or look-behind by a constant in a string or byte slice
// (`s[i+1]`, `s[pos-1]`) is guarded.  For s[v+k] some test `v+k' < len(s)` with k' >= k (or an
// equivalent spelling: `v < len(s)-k'`, `len(s) > v+k'`, `len(s)-v > k'`, a loop condition of
// that form) holds on every path to the access; for s[v-k] a test `v >= k` (`v > k-1`, `v != 0`
// resp. the false edge of `v == 0` for k = 1, `v > 0`).  Peeking at the byte after a delimiter
// without asking whether there is one panics on a source that ends with that delimiter.
func checkLookaround(w *World, r *Report) {
	isData := func(t types.Type) bool {
		switch u := t.Underlying().(type) {
		case *types.Basic:
			return u.Info()&types.IsString != 0
		case *types.Slice:
			b, ok := u.Elem().Underlying().(*types.Basic)
			return ok && b.Kind() == types.Uint8
		}
		return false
	}
	// v ± k
	var split func(idx ssa.Value) (base ssa.Value, k int64, ok bool)
	split1 := func(idx ssa.Value) (base ssa.Value, k int64, ok bool) {
		bo, isBo := idx.(*ssa.BinOp)
		if !isBo || (bo.Op != token.ADD && bo.Op != token.SUB) {
			return nil, 0, false
		}
		c, isC := intConst(bo.Y)
		if !isC {
			if c2, isC2 := intConst(bo.X); isC2 && bo.Op == token.ADD {
				return bo.Y, c2, true
			}
			return nil, 0, false
		}
		if bo.Op == token.SUB {
			c = -c
		}
		return bo.X, c, true
	}
	// constants accumulate: (len(x) - 1) - 1 is len(x) - 2
	split = func(idx ssa.Value) (ssa.Value, int64, bool) {
		base, k, ok := split1(idx)
		if !ok {
			return nil, 0, false
		}
		for i := 0; i < 4; i++ {
			b2, k2, ok2 := split1(unspill(base))
			if !ok2 {
				break
			}
			base, k = b2, k+k2
		}
		return base, k, true
	}
	lenOf := func(v ssa.Value, x ssa.Value) bool {
		c, ok := v.(*ssa.Call)
		if !ok {
			return false
		}
		b, ok := c.Call.Value.(*ssa.Builtin)
		return ok && b.Name() == "len" && len(c.Call.Args) == 1 && sameValue(unspill(c.Call.Args[0]), unspill(x))
	}
	n := 0
	for _, fn := range w.pkgFuncs() {
		instrsOf(fn, func(in ssa.Instruction) {
			var x, idx ssa.Value
			switch v := in.(type) {
			case *ssa.Index:
				x, idx = v.X, v.Index
			case *ssa.IndexAddr:
				x, idx = v.X, v.Index
			default:
				return
			}
			if !isData(deref(x.Type())) {
				return
			}
			base, k, ok := split(idx)
			if !ok || k == 0 || k > 16 || k < -16 {
				return
			}
			n++
			construct := fmt.Sprintf("look-around x[v%+d] is guarded", k)
			// searchSlack: base = v1 + r with r = strings.Index*(y[v1:], …): once r != -1 is known,
			// base < len(y); with y = x[:len(x)-c] (c = 0 for y = x) that is base + c < len(x).
			// Returns the search call and c.
			searchSlack := func() (*ssa.Call, int64, bool) {
				bo, ok := unspill(base).(*ssa.BinOp)
				if !ok || bo.Op != token.ADD {
					return nil, 0, false
				}
				for _, pr := range [][2]ssa.Value{{bo.X, bo.Y}, {bo.Y, bo.X}} {
					v1, rv := pr[0], pr[1]
					c, ok := rv.(*ssa.Call)
					if !ok {
						continue
					}
					f := calleeFunc(c)
					if f == nil || f.Pkg() == nil || (f.Pkg().Path() != "strings" && f.Pkg().Path() != "bytes") || !strings.HasPrefix(f.Name(), "Index") || len(c.Call.Args) == 0 {
						continue
					}
					sl, ok := c.Call.Args[0].(*ssa.Slice)
					if !ok || sl.High != nil || sl.Low == nil || !sameValue(unspill(sl.Low), unspill(v1)) {
						continue
					}
					y := unspill(sl.X)
					if sameValue(y, unspill(x)) {
						return c, 0, true
					}
					// y = x[:len(x)-c]
					if ys, ok := y.(*ssa.Slice); ok && ys.Low == nil && ys.High != nil && sameValue(unspill(ys.X), unspill(x)) {
						if hb, kk, ok := split(ys.High); ok && lenOf(hb, x) && kk < 0 {
							return c, -kk, true
						}
					}
				}
				return nil, 0, false
			}
			var mkFlow func(k int64, depth int) *boolFlow
			mkFlow = func(k int64, depth int) *boolFlow {
				var below *boolFlow
				if k > 1 && depth < 3 {
					below = mkFlow(k-1, depth+1)
				}
				fl := &boolFlow{fn: fn, entry: false}
				fl.edge = func(b *ssa.BasicBlock, i int) bool {
					return anyEdgeFact(b, i, func(cv ssa.Value, trueIdx int) bool {
						bo, ok := cv.(*ssa.BinOp)
						if !ok {
							return false
						}
						if k > 0 {
							// the search succeeded: r != -1 / r >= 0 / !(r < 0) / !(r == -1)
							if sc, slack, ok := searchSlack(); ok && slack >= k-0 && false {
								_ = sc
							}
							if sc, slack, ok := searchSlack(); ok {
								for _, pr := range [][2]ssa.Value{{bo.X, bo.Y}, {bo.Y, bo.X}} {
									if pr[0] != ssa.Value(sc) {
										continue
									}
									c, isC := intConst(pr[1])
									if !isC {
										continue
									}
									onTrue := i == trueIdx
									found := false
									switch {
									case bo.Op == token.EQL && c == -1:
										found = !onTrue
									case bo.Op == token.NEQ && c == -1:
										found = onTrue
									case bo.Op == token.LSS && c == 0 && pr[0] == bo.X:
										found = !onTrue
									case bo.Op == token.GEQ && c == 0 && pr[0] == bo.X:
										found = onTrue
									}
									if found && slack >= k {
										return true
									}
								}
							}
							// base + k != len(x) where base + (k-1) < len(x) is already known
							if below != nil || k == 1 {
								if bo.Op == token.EQL || bo.Op == token.NEQ {
									for _, pr := range [][2]ssa.Value{{bo.X, bo.Y}, {bo.Y, bo.X}} {
										b2, kk, ok := split(pr[0])
										if !ok || kk != k || !sameValue(unspill(b2), unspill(base)) || !lenOf(pr[1], x) {
											continue
										}
										ne := (bo.Op == token.NEQ) == (i == trueIdx)
										if !ne {
											continue
										}
										if k == 1 {
											// base < len(x) must be known: from the search (slack >= 0)
											if _, slack, ok := searchSlack(); ok && slack >= 0 {
												// the search fact must hold here: approximated by the search call dominating the test
												if sc, _, _ := searchSlack(); sc != nil && (sc.Block() == b || sc.Block().Dominates(b)) {
													return true
												}
											}
										} else if below != nil && below.out(b, below.in[b]) {
											return true
										}
									}
								}
							}
						}
						op, l, rgt := bo.Op, bo.X, bo.Y
						if i != trueIdx {
							switch op {
							case token.LSS:
								op = token.GEQ
							case token.LEQ:
								op = token.GTR
							case token.GTR:
								op = token.LEQ
							case token.GEQ:
								op = token.LSS
							case token.EQL:
								op = token.NEQ
							case token.NEQ:
								op = token.EQL
							default:
								return false
							}
						}
						// normalise to l < r / l <= r
						switch op {
						case token.GTR:
							op, l, rgt = token.LSS, rgt, l
						case token.GEQ:
							op, l, rgt = token.LEQ, rgt, l
						}
						sameBase := func(v ssa.Value) bool { return sameValue(unspill(v), unspill(base)) }
						if k > 0 {
							// base + k' < len(x)  |  base + k' <= len(x)-1 …
							need := k
							if op == token.LEQ {
								need = k + 1 // l <= r  ==  l < r+1
							}
							if op != token.LSS && op != token.LEQ {
								return false
							}
							// forms: (base+k') OP len ; base OP len-k' ; k' OP len-base
							if b2, kk, ok := split(l); ok && sameBase(b2) && lenOf(rgt, x) {
								if op == token.LSS {
									return kk >= k
								}
								return kk >= need // base+kk <= len  ⇒ base+kk-1 < len
							}
							if sameBase(l) {
								if rb, kk, ok := split(rgt); ok && lenOf(rb, x) && kk < 0 {
									// base < len-kk'  (kk negative)
									if op == token.LSS {
										return -kk >= k
									}
									return -kk >= need
								}
							}
							if c, isC := intConst(l); isC {
								if rb, ok := rgt.(*ssa.BinOp); ok && rb.Op == token.SUB && lenOf(rb.X, x) && sameBase(rb.Y) {
									// c < len - base
									if op == token.LSS {
										return c >= k
									}
									return c >= need
								}
							}
							return false
						}
						// k < 0: base >= -k
						kk := -k
						switch op {
						case token.LSS: // c < base
							if c, isC := intConst(l); isC && sameBase(rgt) {
								return c >= kk-1
							}
						case token.LEQ: // c <= base
							if c, isC := intConst(l); isC && sameBase(rgt) {
								return c >= kk
							}
						case token.NEQ:
							if kk == 1 {
								if c, isC := intConst(rgt); isC && c == 0 && sameBase(l) {
									return true
								}
								if c, isC := intConst(l); isC && c == 0 && sameBase(rgt) {
									return true
								}
							}
						}
						return false
					})
				}
				fl.solve()
				return fl
			}
			fl := mkFlow(k, 0)
			if fl.at(in) {
				r.ok("R05.13", ssaName(fn), construct, w.posOf(in.Pos()), "a bound test of the same position dominates the access", true)
			} else {
				r.bad("R05.13", ssaName(fn), construct, w.posOf(in.Pos()), fmt.Sprintf("the byte at offset %+d from a scan position is read without a test that the position exists on every path: a source that ends right there (a lone delimiter at the end of the template) makes the index run out of range and the parse panics", k))
			}
		})
	}
	r.Counts["constant look-arounds in strings and byte slices"] = n
}

// trueImpliesLen: g returns a bool; every return of g whose value is not the constant false lies
// where len(g.Params[pi]) >= n holds.
func (s *signer) trueImpliesLen(g *ssa.Function, pi int, n int64) bool {
	if g.Signature.Results().Len() != 1 || !types.Identical(g.Signature.Results().At(0).Type().Underlying(), types.Typ[types.Bool]) {
		return false
	}
	key := fmt.Sprintf("%p/%d/%d", g, pi, n)
	if s.lenMemo == nil {
		s.lenMemo = map[string]int{}
	}
	switch s.lenMemo[key] {
	case 1, 3:
		return false
	case 2:
		return true
	}
	s.lenMemo[key] = 1
	ok, nret := true, 0
	instrsOf(g, func(in ssa.Instruction) {
		ret, isRet := in.(*ssa.Return)
		if !isRet || !ok {
			return
		}
		nret++
		if isConstBool(ret.Results[0], false) {
			return
		}
		if !s.lenAtLeast(g, g.Params[pi], n, ret.Block()) {
			ok = false
		}
	})
	if ok && nret > 0 {
		s.lenMemo[key] = 2
		return true
	}
	s.lenMemo[key] = 3
	return false
}

// checkRuneIndexBounds — R05.17: a character position is checked against the number of characters.
// Where a render- or parse-reachable function indexes []rune(s) with a non-constant index, some
// comparison on the way relates that index (or the value it was computed from) to the length of
// that rune slice — len(runes) or utf8.RuneCountInString — and not merely to len(s): the byte
// length is larger for every non-ASCII string, so an index between the two passes the test and
// the indexing panics.
func checkRuneIndexBounds(w *World, r *Report) {
	reach := w.renderReachable()
	for f := range w.parseReachable() {
		reach[f] = true
	}
	n := 0
	for _, fn := range w.pkgFuncs() {
		if !reach[fn] {
			continue
		}
		instrsOf(fn, func(in ssa.Instruction) {
			ia, ok := in.(*ssa.IndexAddr)
			if !ok {
				return
			}
			if _, isConst := ia.Index.(*ssa.Const); isConst {
				return
			}
			var runes ssa.Value
			for _, o := range originChain(ia.X) {
				if cv, ok := o.(*ssa.Convert); ok {
					if sl, ok := cv.Type().Underlying().(*types.Slice); ok {
						if bt, ok := sl.Elem().Underlying().(*types.Basic); ok && bt.Kind() == types.Int32 && isString(cv.X.Type()) {
							runes = cv
						}
					}
				}
			}
			if runes == nil {
				return
			}
			// loops `for i := range runes` / `for i := 0; i < len(runes); i++` and reversed forms
			// compare the index with len(runes) too, so one test covers them
			isRuneLen := func(v ssa.Value) bool {
				seen := map[ssa.Value]bool{}
				var walk func(v ssa.Value, d int) bool
				walk = func(v ssa.Value, d int) bool {
					v = unspill(v)
					if v == nil || seen[v] || d > 4 {
						return false
					}
					seen[v] = true
					switch x := v.(type) {
					case *ssa.Call:
						if b, ok := x.Call.Value.(*ssa.Builtin); ok && b.Name() == "len" && len(x.Call.Args) == 1 {
							for _, o := range originChain(x.Call.Args[0]) {
								if o == runes {
									return true
								}
							}
						}
						if g := x.Call.StaticCallee(); g != nil && g.Pkg != nil && g.Pkg.Pkg.Path() == "unicode/utf8" && strings.HasPrefix(g.Name(), "RuneCount") {
							return true
						}
					case *ssa.BinOp:
						return walk(x.X, d+1) || walk(x.Y, d+1)
					case *ssa.Phi:
						for _, e := range x.Edges {
							if walk(e, d+1) {
								return true
							}
						}
					}
					return false
				}
				return walk(v, 0)
			}
			tested := false
			instrsOf(fn, func(in2 ssa.Instruction) {
				bo, ok := in2.(*ssa.BinOp)
				if !ok {
					return
				}
				switch bo.Op {
				case token.LSS, token.LEQ, token.GTR, token.GEQ, token.EQL, token.NEQ:
					if isRuneLen(bo.X) || isRuneLen(bo.Y) {
						tested = true
					}
				}
			})
			n++
			construct := "index into []rune(" + describe(runes.(*ssa.Convert).X) + ")"
			if tested {
				r.ok("R05.17", ssaName(fn), construct, w.posOf(ia.Pos()), "the function compares against the rune count", false)
			} else {
				r.bad("R05.17", ssaName(fn), construct, w.posOf(ia.Pos()), "no comparison in the function involves the number of characters (len of the rune slice, utf8.RuneCount…): a test against the byte length lets through every index between the character count and the byte count of a non-ASCII string, and the indexing panics")
			}
		})
	}
	r.Counts["non-constant indexes into []rune(s)"] = n
}

// checkFieldPathsTolerateNil — R05.18: a field path is followed with FieldByIndexErr.  An index
// path taken from a reflect.StructField (FieldByName, VisibleFields, Type.Field) can lead through
// an embedded *pointer* to a struct; reflect.Value.FieldByIndex panics when that pointer is nil,
// FieldByIndexErr reports it.  On render paths every FieldByIndex call whose index is not a
// constant literal is therefore a violation: context data with a nil embedded pointer is ordinary.
func checkFieldPathsTolerateNil(w *World, r *Report) {
	reach := w.renderReachable()
	n := 0
	for _, fn := range w.pkgFuncs() {
		if !reach[fn] {
			continue
		}
		instrsOf(fn, func(in ssa.Instruction) {
			c, ok := in.(*ssa.Call)
			if !ok {
				return
			}
			g := c.Call.StaticCallee()
			if g == nil {
				return
			}
			switch g.String() {
			case "(reflect.Value).FieldByIndexErr":
				n++
				r.ok("R05.18", ssaName(fn), "field path followed with FieldByIndexErr", w.posOf(in.Pos()), "a nil embedded pointer is reported, not dereferenced", false)
			case "(reflect.Value).FieldByIndex":
				n++
				r.bad("R05.18", ssaName(fn), "field path followed with FieldByIndex", w.posOf(in.Pos()), "FieldByIndex panics (\"indirection through nil pointer to embedded struct\") when the path crosses an embedded pointer that is nil; a struct with an unset embedded pointer in the context makes the render panic instead of yielding an empty value or an error")
			}
		})
	}
	r.floor("field-path accesses on render paths", n, 1)
}

// ---------------------------------------------------------------- R05.20
//
// "Not found" is an answer, not an offset.  strings.Index & co. return -1 when the needle is
// absent; a result that is used as it stands — as a bound of a slice expression or as an index —
// must be known non-negative at that point (a test of the result on every path, or a phi all of
// whose incoming values are non-negative on their edges): x[:-1] and x[-1] panic.  Results that
// are first combined arithmetically (i+1, i-len(..)) are left to the other sign rules.
func checkSearchResultsTested(w *World, r *Report) {
	s := newSigner(w)
	n := 0
	isSearch := func(v ssa.Value) bool {
		c, ok := v.(*ssa.Call)
		if !ok {
			return false
		}
		f := calleeFunc(c)
		return f != nil && f.Pkg() != nil && indexFuncs[f.Pkg().Path()+"."+f.Name()]
	}
	var fromSearch func(v ssa.Value, d int) bool
	fromSearch = func(v ssa.Value, d int) bool {
		v = unspill(v)
		if v == nil || d > 3 {
			return false
		}
		if isSearch(v) {
			return true
		}
		if ph, ok := v.(*ssa.Phi); ok {
			for _, e := range ph.Edges {
				if fromSearch(e, d+1) {
					return true
				}
			}
		}
		return false
	}
	for _, fn := range w.pkgFuncs() {
		instrsOf(fn, func(in ssa.Instruction) {
			var bounds []ssa.Value
			what := ""
			switch x := in.(type) {
			case *ssa.Slice:
				bounds, what = []ssa.Value{x.Low, x.High}, "slice bound"
			case *ssa.Index:
				bounds, what = []ssa.Value{x.Index}, "index"
			case *ssa.IndexAddr:
				bounds, what = []ssa.Value{x.Index}, "index"
			case *ssa.Lookup:
				if _, isMap := x.X.Type().Underlying().(*types.Map); !isMap {
					bounds, what = []ssa.Value{x.Index}, "index"
				}
			}
			for _, b := range bounds {
				if b == nil || !fromSearch(b, 0) {
					continue
				}
				n++
				construct := what + " taken from a search result is known to be an offset"
				q := &signQuery{seen: map[ssa.Value]bool{}}
				if s.atLeast(unspill(b), 0, point{in.Block(), -1}, q) || searchFound(fn, unspill(b), in) {
					r.ok("R05.20", ssaName(fn), construct, w.posOf(in.Pos()), "the result was tested (found) on every path to this use", true)
				} else {
					r.bad("R05.20", ssaName(fn), construct, w.posOf(in.Pos()), fmt.Sprintf("the result of the search is used as %s without a test that the needle was found (%v): for an input without the needle it is -1 and the expression panics", what, q.why))
				}
			}
		})
	}
	r.floor("search results used directly as bounds or indices", n, 1)
}

// searchFound: on every path to `use`, a branch condition says that the search whose result is v
// succeeded: v != -1, v >= 0, v > c (c >= -1), v == c (c >= 0), or strings.Contains / bytes.Contains
// of the same haystack and needle was true.  v is a search call or a phi over search calls (then
// the tests must be on the phi itself).
func searchFound(fn *ssa.Function, v ssa.Value, use ssa.Instruction) bool {
	sc, _ := v.(*ssa.Call)
	// two facts: one about v (dies where v is computed anew), one about the haystack containing
	// the needle (dies where the haystack value is computed anew)
	return searchFoundBy(fn, v, sc, use, false) || (sc != nil && searchFoundBy(fn, v, sc, use, true)) || (sc != nil && searchGuardedAtCallers(sc))
}

// containsCallOn: is c a call strings/bytes.Contains*(hay, needle) matching the search sc when sc's
// haystack is replaced by hay?
func containsCallOn(c *ssa.Call, hay ssa.Value, sc *ssa.Call) bool {
	f, g := calleeFunc(c), calleeFunc(sc)
	if f == nil || g == nil || f.Pkg() == nil || (f.Pkg().Path() != "strings" && f.Pkg().Path() != "bytes") || !strings.HasPrefix(f.Name(), "Contains") || len(c.Call.Args) != 2 || len(sc.Call.Args) != 2 {
		return false
	}
	suffix := strings.TrimPrefix(strings.TrimPrefix(g.Name(), "Last"), "Index")
	if suffix == "Byte" {
		suffix = "x"
	}
	return strings.TrimPrefix(f.Name(), "Contains") == suffix && sameValue(unspill(c.Call.Args[0]), unspill(hay)) && sameOrEqualConst(c.Call.Args[1], sc.Call.Args[1])
}

// searchGuardedAtCallers: the search looks in a parameter of an unexported helper for a constant
// needle, and every in-package call of the helper stands behind Contains(<that argument>, <that
// needle>) — asked directly or through a predicate of the package that answers true only when
// Contains does (`return len(s) >= 2 && s[0] == '[' && strings.Contains(s, "]")`).
func searchGuardedAtCallers(sc *ssa.Call) bool {
	if len(sc.Call.Args) != 2 {
		return false
	}
	if _, isConst := sc.Call.Args[1].(*ssa.Const); !isConst {
		return false
	}
	p, ok := unspill(sc.Call.Args[0]).(*ssa.Parameter)
	if !ok {
		return false
	}
	cvs, ok := callerValues(p, -1)
	if !ok || len(cvs) == 0 {
		return false
	}
	// predicate g implies Contains(param k, needle)?
	impliesContains := func(g *ssa.Function, k int) bool {
		if g == nil || len(g.Blocks) == 0 || k >= len(g.Params) {
			return false
		}
		all, any := true, false
		instrsOf(g, func(in ssa.Instruction) {
			ret, ok := in.(*ssa.Return)
			if !ok {
				return
			}
			res := retResults(ret)
			if len(res) != 1 {
				all = false
				return
			}
			seen := map[ssa.Value]bool{}
			var walk func(v ssa.Value, d int)
			walk = func(v ssa.Value, d int) {
				if seen[v] || d > 6 {
					return
				}
				seen[v] = true
				switch x := v.(type) {
				case *ssa.Const:
					if x.Value == nil || x.Value.Kind() != constant.Bool || constant.BoolVal(x.Value) {
						all = false
					}
				case *ssa.Phi:
					for _, e := range x.Edges {
						walk(e, d+1)
					}
				case *ssa.Call:
					if containsCallOn(x, g.Params[k], sc) {
						any = true
					} else {
						all = false
					}
				default:
					all = false
				}
			}
			walk(res[0], 0)
		})
		return all && any
	}
	for _, cv := range cvs {
		caller := cv.caller
		fl := &boolFlow{fn: caller, entry: false}
		arg := unspill(cv.val)
		fl.step = func(in ssa.Instruction, st bool) bool {
			if val, ok := in.(ssa.Value); ok && val == arg {
				return false
			}
			return st
		}
		fl.edge = func(b *ssa.BasicBlock, i int) bool {
			return anyEdgeFact(b, i, func(cv2 ssa.Value, trueIdx int) bool {
				c, ok := cv2.(*ssa.Call)
				if !ok || i != trueIdx {
					return false
				}
				if containsCallOn(c, arg, sc) {
					return true
				}
				if g := c.Call.StaticCallee(); g != nil && isTwigFn(g) {
					for k, a := range c.Call.Args {
						if sameValue(unspill(a), arg) && impliesContains(g, k) {
							return true
						}
					}
				}
				return false
			})
		}
		fl.solve()
		site, ok := cv.site.(ssa.Instruction)
		if !ok || !fl.at(site) {
			return false
		}
	}
	return true
}

func searchFoundBy(fn *ssa.Function, v ssa.Value, sc *ssa.Call, use ssa.Instruction, byContains bool) bool {
	fl := &boolFlow{fn: fn, entry: false}
	var dies ssa.Value = v
	if byContains {
		if len(sc.Call.Args) != 2 {
			return false
		}
		dies = unspill(sc.Call.Args[0])
	}
	fl.step = func(in ssa.Instruction, st bool) bool {
		if val, ok := in.(ssa.Value); ok && val == dies {
			return false
		}
		return st
	}
	fl.edge = func(b *ssa.BasicBlock, i int) bool {
		return anyEdgeFact(b, i, func(cv ssa.Value, trueIdx int) bool {
			onTrue := i == trueIdx
			if !byContains {
				if _, isCall := cv.(*ssa.Call); isCall {
					return false
				}
			} else if _, isCall := cv.(*ssa.Call); !isCall {
				return false
			}
			if c, ok := cv.(*ssa.Call); ok && sc != nil && onTrue {
				f := calleeFunc(c)
				if f != nil && f.Pkg() != nil && (f.Pkg().Path() == "strings" || f.Pkg().Path() == "bytes") && strings.HasPrefix(f.Name(), "Contains") && len(c.Call.Args) == 2 && len(sc.Call.Args) == 2 {
					g := calleeFunc(sc)
					// Contains ~ Index/LastIndex, ContainsRune ~ IndexRune, ContainsAny ~ IndexAny/LastIndexAny
					suffix := strings.TrimPrefix(strings.TrimPrefix(g.Name(), "Last"), "Index")
					if suffix == "Byte" {
						suffix = "x"
					}
					if strings.TrimPrefix(f.Name(), "Contains") == suffix && sameValue(unspill(c.Call.Args[0]), unspill(sc.Call.Args[0])) && sameOrEqualConst(c.Call.Args[1], sc.Call.Args[1]) {
						return true
					}
				}
				return false
			}
			bo, ok := cv.(*ssa.BinOp)
			if !ok {
				return false
			}
			op, l, rgt := bo.Op, bo.X, bo.Y
			if !onTrue {
				switch op {
				case token.LSS:
					op = token.GEQ
				case token.LEQ:
					op = token.GTR
				case token.GTR:
					op = token.LEQ
				case token.GEQ:
					op = token.LSS
				case token.EQL:
					op = token.NEQ
				case token.NEQ:
					op = token.EQL
				default:
					return false
				}
			}
			// bring v to the left
			if unspill(rgt) == v {
				l, rgt = rgt, l
				switch op {
				case token.LSS:
					op = token.GTR
				case token.LEQ:
					op = token.GEQ
				case token.GTR:
					op = token.LSS
				case token.GEQ:
					op = token.LEQ
				}
			}
			if unspill(l) != v {
				return false
			}
			c, isC := intConst(rgt)
			if !isC {
				return false
			}
			switch op {
			case token.NEQ:
				return c == -1
			case token.EQL:
				return c >= 0
			case token.GEQ:
				return c >= 0
			case token.GTR:
				return c >= -1
			}
			return false
		})
	}
	fl.solve()
	return fl.at(use)
}

func sameOrEqualConst(a, b ssa.Value) bool {
	ca, okA := a.(*ssa.Const)
	cb, okB := b.(*ssa.Const)
	if okA && okB {
		return ca.Value != nil && cb.Value != nil && types.Identical(ca.Type(), cb.Type()) && constant.Compare(ca.Value, token.EQL, cb.Value)
	}
	return sameValue(unspill(a), unspill(b))
}
