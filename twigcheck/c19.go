package main

// C19 — built-in filters satisfy their defining equations.  Equations over values are not
// statically decidable here; two clauses relating sibling implementations are:
//
// R19.1 one unit of length for strings: the functions that give strings element semantics —
//       the implementations registered as length/count/first/last/slice/reverse (filters and
//       functions), the built-in length arm and the for-loop renderer — count, index, slice and
//       number the elements of a string in runes, never in bytes.
// R19.2 an omitted argument is distinguishable from every supplied value: the default given to
//       an optional parameter of a variadic filter must not be a value to which the same
//       function gives a different meaning when it is supplied.

import (
	"fmt"
	"go/ast"
	"go/constant"
	"go/token"
	"go/types"
	"sort"
	"strings"

	"golang.org/x/tools/go/ssa"
)

func init() { register("C19", checkC19) }

var elementSemanticsNames = map[string]bool{"length": true, "count": true, "first": true, "last": true, "slice": true, "reverse": true}

// registered: name -> functions bound under that name in filter/function registration tables and
// in name switches (`case "length", "count": return ctx.callLengthFunction(args)`).
func (w *World) registered(names map[string]bool) map[*types.Func]string {
	out := map[*types.Func]string{}
	filterT, funcT := w.named("FilterFunc"), w.named("FunctionFunc")
	for _, fd := range w.sortedDecls() {
		ast.Inspect(fd.Body, func(n ast.Node) bool {
			switch x := n.(type) {
			case *ast.CompositeLit:
				tbl, ok := w.registrationTable(x, filterT, funcT)
				if !ok {
					return true
				}
				for name, obj := range tbl {
					if !names[name] {
						continue
					}
					if f, ok := obj.(*types.Func); ok {
						out[f] = name
					}
				}
			case *ast.CaseClause:
				hit := ""
				for _, e := range x.List {
					if tv := w.Info.Types[e]; tv.Value != nil && tv.Value.Kind() == constant.String && names[constant.StringVal(tv.Value)] {
						hit = constant.StringVal(tv.Value)
					}
				}
				if hit == "" {
					return true
				}
				for _, st := range x.Body {
					ast.Inspect(st, func(m ast.Node) bool {
						if c, ok := m.(*ast.CallExpr); ok {
							if f := w.callee(c); f != nil && f.Pkg() != nil && f.Pkg().Path() == twigPath {
								sig := f.Type().(*types.Signature)
								// only callees that receive the data (a slice/interface parameter)
								for i := 0; i < sig.Params().Len(); i++ {
									if isDataType(sig.Params().At(i).Type()) {
										out[f] = hit
									}
								}
							}
						}
						return true
					})
				}
			}
			return true
		})
	}
	return out
}

// checkStringUnits implements R19.1 (and, restricted to the for renderer, R09.4).
func checkStringUnits(w *World, r *Report, rule string, onlyFor bool) int {
	scope := map[*ssa.Function]string{}
	if !onlyFor {
		reg := w.registered(elementSemanticsNames)
		for f, nm := range reg {
			scope[w.ssaFunc(f)] = nm
		}
		// static package callees that receive the data value (length(v), …), two levels
		for round := 0; round < 2; round++ {
			for fn, nm := range scope {
				instrsOf(fn, func(in ssa.Instruction) {
					c, ok := in.(*ssa.Call)
					if !ok {
						return
					}
					g := c.Call.StaticCallee()
					if g == nil || !w.inPkg(g) || scope[g] != "" {
						return
					}
					for i, a := range c.Call.Args {
						if i < len(g.Params) {
							if it, ok := g.Params[i].Type().Underlying().(*types.Interface); ok && it.NumMethods() == 0 {
								if _, isParam := dataParam(a); isParam {
									scope[g] = nm
								}
							}
						}
					}
				})
			}
		}
	}
	for _, fn := range w.pkgFuncs() {
		if fn.Signature.Recv() != nil && isNamed(fn.Signature.Recv().Type(), twigPath, "ForNode") {
			hasRender := false
			instrsOf(fn, func(in ssa.Instruction) {
				if _, f, ok := renderOf(in); ok && f == "body" {
					hasRender = true
				}
			})
			if hasRender {
				scope[fn] = "for"
			}
		}
	}
	var fns []*ssa.Function
	for fn := range scope {
		fns = append(fns, fn)
	}
	sort.Slice(fns, func(i, j int) bool { return ssaName(fns[i]) < ssaName(fns[j]) })
	n := 0
	r.Counts["sibling implementations with string element semantics"] = len(fns)
	if !onlyFor && len(fns) < 6 {
		cannotDecide("only %d sibling implementations (length/count/first/last/slice/reverse/for) were resolved", len(fns))
	}
	for _, fn := range fns {
		role := scope[fn]
		name := ssaName(fn)
		instrsOf(fn, func(in ssa.Instruction) {
			switch x := in.(type) {
			case *ssa.Convert:
				// string(<[]byte value>): the sequence changes its unit (bytes → characters) in this
				// sibling only
				if bt, ok := x.Type().Underlying().(*types.Basic); ok && bt.Info()&types.IsString != 0 {
					if sl, ok := x.X.Type().Underlying().(*types.Slice); ok {
						if et, ok := sl.Elem().Underlying().(*types.Basic); ok && et.Kind() == types.Uint8 {
							fromData := false
							for _, o := range originChain(x.X) {
								if ex, ok := o.(*ssa.Extract); ok {
									o = ex.Tuple
								}
								if ta, ok := o.(*ssa.TypeAssert); ok {
									if it, ok := ta.X.Type().Underlying().(*types.Interface); ok && it.NumMethods() == 0 {
										fromData = true
									}
								}
							}
							if fromData {
								n++
								r.bad(rule, name, "string(<[]byte value>) in the "+role+" implementation", w.posOf(x.Pos()), "a byte slice handed in as data is turned into a string before it is measured or walked: this sibling counts characters where length, first, last and slice count the bytes of the same value ('héllo' as []byte: 6 elements there, 5 passes here)")
							}
						}
					}
				}
				// []rune(s): the accepted idiom
				if sl, ok := x.Type().Underlying().(*types.Slice); ok {
					if bt, ok := sl.Elem().Underlying().(*types.Basic); ok && bt.Kind() == types.Int32 && isDataString(x.X, 0) {
						n++
						r.ok(rule, name, "[]rune(<string>) in the "+role+" implementation", w.posOf(x.Pos()), "the string is measured / indexed in runes", true)
					}
				}
			case *ssa.Call:
				if f := x.Call.StaticCallee(); f != nil && f.Pkg != nil && f.Pkg.Pkg.Path() == "unicode/utf8" && len(x.Call.Args) > 0 && isDataString(x.Call.Args[0], 0) {
					n++
					r.ok(rule, name, "utf8."+f.Name()+"(<string>) in the "+role+" implementation", w.posOf(x.Pos()), "the string is measured in runes", true)
					return
				}
				// len(s) of a data string, used as a count
				if b, ok := x.Call.Value.(*ssa.Builtin); ok && b.Name() == "len" {
					arg := x.Call.Args[0]
					if bt, ok := arg.Type().Underlying().(*types.Basic); !ok || bt.Info()&types.IsString == 0 {
						return
					}
					if !isDataString(arg, 0) {
						return
					}
					n++
					construct := "len(<string>) in the " + role + " implementation"
					if onlyComparedWithZero(x) {
						r.ok(rule, name, construct, w.posOf(x.Pos()), "only compared with zero (emptiness is the same in bytes and runes)", true)
					} else {
						r.bad(rule, name, construct, w.posOf(x.Pos()), "the byte length of a string is used as its number of elements: for multi-byte text "+role+" disagrees with what first/last/slice/for observe ('héllo'|length = 6)")
					}
					return
				}
				// reflect Value.Len() where the String kind is admitted
				if f := x.Call.StaticCallee(); f != nil && f.String() == "(reflect.Value).Len" {
					s := reflectSite{in: in, recv: x.Call.Args[0], method: "Len", legal: kindSet("Array", "Chan", "Map", "Slice")}
					if reflectGuarded(fn, s) != "" {
						return // the String kind is excluded here
					}
					// is it guarded at all for String? (otherwise R05.2's business)
					s2 := s
					s2.legal = kindSet("Array", "Chan", "Map", "Slice", "String")
					if reflectGuarded(fn, s2) == "" {
						return
					}
					n++
					construct := "reflect Value.Len() where the value may be a string, in the " + role + " implementation"
					r.bad(rule, name, construct, w.posOf(x.Pos()), "Len() of a string-kind Value is its byte length: it is used as the element count of a string")
				}
			case *ssa.Index:
				if bt, ok := x.X.Type().Underlying().(*types.Basic); ok && bt.Info()&types.IsString != 0 && isDataString(x.X, 0) {
					n++
					r.bad(rule, name, "byte indexing s[i] of a string in the "+role+" implementation", w.posOf(x.Pos()), "a string is indexed by byte: the element handed out is half a character for multi-byte text ('éa'|first)")
				}
			case *ssa.Lookup:
				// s[i] on a data string
				if bt, ok := x.X.Type().Underlying().(*types.Basic); ok && bt.Info()&types.IsString != 0 && isDataString(x.X, 0) {
					n++
					r.bad(rule, name, "byte indexing s[i] of a string in the "+role+" implementation", w.posOf(x.Pos()), "a string is indexed by byte: the element handed out is half a character for multi-byte text ('éa'|first)")
				}
			case *ssa.Slice:
				if bt, ok := x.X.Type().Underlying().(*types.Basic); ok && bt.Info()&types.IsString != 0 && isDataString(x.X, 0) {
					if x.Low == nil && x.High == nil {
						return
					}
					constBounds := true
					for _, b := range []ssa.Value{x.Low, x.High} {
						if b != nil {
							if _, ok := b.(*ssa.Const); !ok {
								constBounds = false
							}
						}
					}
					if constBounds {
						return
					}
					n++
					r.bad(rule, name, "byte slicing s[a:b] of a string in the "+role+" implementation", w.posOf(x.Pos()), "a string is sliced by computed byte offsets: positions are counted in bytes, not in characters")
				}
			case *ssa.Next:
				if !x.IsString {
					return
				}
				// range over a string: the key (byte offset) must not be used as an ordinal
				rg, ok := x.Iter.(*ssa.Range)
				if !ok || !isDataString(rg.X, 0) {
					return
				}
				var key ssa.Value
				if x.Referrers() != nil {
					for _, ref := range *x.Referrers() {
						if ex, ok := ref.(*ssa.Extract); ok && ex.Index == 1 {
							key = ex
						}
					}
				}
				n++
				construct := "range over a string in the " + role + " implementation"
				if key == nil || key.Referrers() == nil || len(*key.Referrers()) == 0 {
					r.ok(rule, name, construct, w.posOf(rg.Pos()), "only the rune values are used; the byte offset is ignored", true)
					return
				}
				bad := ""
				for _, ref := range *key.Referrers() {
					switch y := ref.(type) {
					case *ssa.DebugRef:
					case *ssa.Slice, *ssa.Lookup, *ssa.IndexAddr:
						// used to index/slice the string itself: fine
					case *ssa.BinOp:
						if c, ok := y.Y.(*ssa.Const); ok && (y.Op == token.EQL || y.Op == token.NEQ || y.Op == token.GTR) && c.Value != nil && c.Value.ExactString() == "0" {
							continue // first-element test
						}
						bad = "arithmetic/comparison " + y.String()
					default:
						bad = fmt.Sprintf("%T", ref)
					}
				}
				if bad == "" {
					r.ok(rule, name, construct, w.posOf(rg.Pos()), "the byte offset is only used to index the string itself or to test for the first element", true)
				} else {
					r.bad(rule, name, construct, w.posOf(rg.Pos()), "the key of `range <string>` is a byte offset, but it is used as the element's ordinal ("+bad+"): for 'héy' the elements are numbered 1, 2, 4 and loop.last never becomes true")
				}
			}
		})
	}
	return n
}

// dataParam: the value is (derived by assertion from) a parameter of the function.
func dataParam(v ssa.Value) (*ssa.Parameter, bool) {
	for d := 0; d < 6; d++ {
		switch x := v.(type) {
		case *ssa.Parameter:
			return x, true
		case *ssa.TypeAssert:
			v = x.X
		case *ssa.Extract:
			v = x.Tuple
		case *ssa.MakeInterface:
			v = x.X
		case *ssa.UnOp:
			if ia, ok := x.X.(*ssa.IndexAddr); ok {
				v = ia.X
			} else {
				return nil, false
			}
		default:
			return nil, false
		}
	}
	return nil, false
}

// isDataString: a string that is template data: asserted from an interface{} value, obtained by
// Value.String() of a reflected value, or converted by a toString-like helper — not a constant,
// not a string built by this function.
func isDataString(v ssa.Value, depth int) bool {
	if depth > 6 {
		return false
	}
	switch x := v.(type) {
	case *ssa.TypeAssert:
		return true
	case *ssa.Extract:
		return isDataString(x.Tuple, depth+1)
	case *ssa.Parameter:
		return true
	case *ssa.Phi:
		for _, e := range x.Edges {
			if isDataString(e, depth+1) {
				return true
			}
		}
	case *ssa.UnOp:
		if al, ok := x.X.(*ssa.Alloc); ok && al.Referrers() != nil {
			for _, ref := range *al.Referrers() {
				if st, ok := ref.(*ssa.Store); ok && st.Addr == al && isDataString(st.Val, depth+1) {
					return true
				}
			}
		}
	case *ssa.Call:
		if f := x.Call.StaticCallee(); f != nil {
			if f.String() == "(reflect.Value).String" {
				return true
			}
			if isTwigFn(f) && strings.EqualFold(f.Name(), "tostring") {
				return true
			}
		}
	}
	return false
}

func onlyComparedWithZero(v ssa.Value) bool {
	if v.Referrers() == nil {
		return true
	}
	for _, ref := range *v.Referrers() {
		switch x := ref.(type) {
		case *ssa.DebugRef:
		case *ssa.BinOp:
			other := x.Y
			if other == v {
				other = x.X
			}
			c, ok := other.(*ssa.Const)
			if !ok || c.Value == nil || c.Value.ExactString() != "0" {
				return false
			}
			switch x.Op {
			case token.EQL, token.NEQ, token.GTR, token.LSS, token.LEQ, token.GEQ:
			default:
				return false
			}
		default:
			return false
		}
	}
	return true
}

func checkC19(w *World, r *Report) {
	r.Explanation = "Decides two clauses of C19 that relate sibling implementations, for every input: (R19.1) every implementation that gives strings element semantics — whatever is registered as the filter or function length, count, first, last, slice, reverse, the built-in length arm and the for-loop renderer — measures, indexes, slices and numbers strings in runes: no byte length used as a count, no byte indexing or computed byte slicing, no Value.Len() where the value may be a string, no range key used as ordinal; this is the necessary condition for 'length equals the number of elements that first, last, slice and a for loop observe'; (R19.2) in every variadic filter the default assigned to an omitted optional argument is not a value to which the same function gives a different meaning when supplied (the defect 'omitted length means to the end' vs 'negative length counts from the end'). NOT decided: every other equation of the property (idempotence, involution, permutation, join/split, default, merge, keys, the index rules themselves, decimal arithmetic) — they quantify over values."
	r.Explanation += " Rules added in later rounds: (R19.5) values are measured by kind, never through interfaces with methods."
	r.Explanation += " Round 9: (R19.6) no interface value is compared with a boxed numeric constant."
	r.Explanation += " Round 10: (R19.1) a []byte value is not re-read as text in one sibling only."
	r.Explanation += " Round 11: (R19.7) filter chains run to the end."
	r.Explanation += " Round 12: (R19.8) numeric text is parsed in base ten."
	r.RuleText = "obligation = one string-measuring construct in a sibling implementation / one optional-argument default; non-trivial = all"
	r.Trusted = []string{"the set of sibling implementations is resolved from the registration tables by the Twig names length/count/first/last/slice/reverse"}

	n := checkStringUnits(w, r, "R19.1", false)
	r.Counts["string-measuring constructs in the sibling implementations"] = n
	checkOptionalDefaults(w, r)
	checkSortComparators(w, r)
	checkMeasureByShape(w, r)
	checkNoBoxedNumberComparisons(w, r)
	checkFilterChainsRunToTheEnd(w, r, "R19.7")
	checkDataNumbersAreDecimal(w, r)
	// R19.3: the emptiness routine behind `default` (and the empty test)
	nz := checkZeroTests(w, r, "R19.3", func(f *types.Func) bool { return f.Name() == "isEmptyValue" }, "treated as non-empty: `default` does not replace it although it replaces int 0")
	r.Counts["zero tests in the emptiness routine"] = nz
}

// checkOptionalDefaults: R19.2.  Pattern: a local is assigned a constant default D, re-assigned
// from args[k] under `len(args) > k`, and later tested by a comparison that D satisfies while
// supplied values also can: then "omitted" is indistinguishable from "supplied D".  Discharged if
// the test also consults a presence flag or len(args).
func checkOptionalDefaults(w *World, r *Report) {
	filterT := w.named("FilterFunc")
	n := 0
	for _, fd := range w.sortedDecls() {
		obj := w.Info.Defs[fd.Name].(*types.Func)
		sig := obj.Type().(*types.Signature)
		if !sig.Variadic() || !types.Identical(types.NewSignatureType(nil, nil, nil, sig.Params(), sig.Results(), true), filterT.Underlying()) {
			continue
		}
		argsVar := sig.Params().At(sig.Params().Len() - 1)
		fname := w.declName(fd)
		// locals with a constant default and a conditional overwrite from args
		type opt struct {
			obj  types.Object
			def  constant.Value
			decl ast.Node
		}
		var opts []opt
		ast.Inspect(fd.Body, func(nd ast.Node) bool {
			as, ok := nd.(*ast.AssignStmt)
			if !ok || as.Tok != token.DEFINE || len(as.Lhs) != 1 || len(as.Rhs) != 1 {
				return true
			}
			tv := w.Info.Types[as.Rhs[0]]
			if tv.Value == nil || tv.Value.Kind() != constant.Int {
				return true
			}
			o := identObj(w, as.Lhs[0])
			if o == nil {
				return true
			}
			// overwritten somewhere under a len(args) test from args[...]
			overwritten := false
			ast.Inspect(fd.Body, func(m ast.Node) bool {
				as2, ok := m.(*ast.AssignStmt)
				if !ok || as2 == as || as2.Tok != token.ASSIGN {
					return true
				}
				for i, lhs := range as2.Lhs {
					if identObj(w, lhs) != o {
						continue
					}
					// is this assignment under `len(args) > k`?
					for p := w.parents[as2]; p != nil; p = w.parents[p] {
						if ifs, ok := p.(*ast.IfStmt); ok && w.mentions(ifs.Cond, argsVar) {
							overwritten = true
						}
					}
					_ = i
				}
				return true
			})
			if overwritten {
				opts = append(opts, opt{o, tv.Value, as})
			}
			return true
		})
		for _, op := range opts {
			// comparisons of the local with constants that the default satisfies
			ast.Inspect(fd.Body, func(nd ast.Node) bool {
				ifs, ok := nd.(*ast.IfStmt)
				if !ok {
					return true
				}
				be, ok := ast.Unparen(ifs.Cond).(*ast.BinaryExpr)
				if !ok || identObj(w, be.X) != op.obj {
					return true
				}
				// nested under (or conjoined with) a test of len(args) / of a presence flag
				// that is set where the argument is read: then "omitted" is decided there
				if presenceGuarded(w, fd, ifs, op.obj, argsVar) {
					return true
				}
				tv := w.Info.Types[be.Y]
				if tv.Value == nil {
					return true
				}
				if !constant.Compare(op.def, be.Op, tv.Value) {
					return true // the default does not take this branch
				}
				// the default takes this branch; can a supplied value take it too? (any
				// relational test admits other values; `== D` admits exactly D, also supplied)
				n++
				construct := fmt.Sprintf("optional argument %s: default %s satisfies `%s`", op.obj.Name(), op.def.ExactString(), types.ExprString(ifs.Cond))
				// a sibling branch on the same variable that the default does NOT satisfy marks
				// the variable as carrying supplied meaning on this side as well
				suppliedMeaning := branchGivesSuppliedMeaning(w, ifs, op.obj)
				if !suppliedMeaning {
					r.ok("R19.2", fname, construct, w.pos(ifs), "the branch taken by the default implements 'omitted' only", true)
				} else {
					r.bad("R19.2", fname, construct, w.pos(ifs), fmt.Sprintf("an omitted %s is represented by %s, but the branch that %s takes implements a meaning for supplied values (it uses the variable's value): omitting the argument behaves like supplying %s ('hello'|slice(1) = 'ell')", op.obj.Name(), op.def.ExactString(), op.def.ExactString(), op.def.ExactString()))
				}
				return true
			})
		}
	}
	r.Counts["optional-argument default tests"] = n
}

// branchGivesSuppliedMeaning: the then-branch of the test uses the variable's value in arithmetic
// (so the branch is about supplied values, e.g. "negative length counts from the end").
func branchGivesSuppliedMeaning(w *World, ifs *ast.IfStmt, v types.Object) bool {
	uses := false
	ast.Inspect(ifs.Body, func(n ast.Node) bool {
		if be, ok := n.(*ast.BinaryExpr); ok {
			switch be.Op {
			case token.ADD, token.SUB, token.MUL, token.QUO:
				if w.mentions(be, v) {
					uses = true
				}
			}
		}
		return true
	})
	return uses
}

// presenceGuarded: an enclosing condition (or a conjunct of the same condition) consults the
// argument list or a bool that is set to true in the block that overwrites the optional variable.
func presenceGuarded(w *World, fd *ast.FuncDecl, ifs *ast.IfStmt, optVar types.Object, argsVar types.Object) bool {
	// presence flags: bool locals assigned `true` in a block that also assigns optVar
	flags := map[types.Object]bool{}
	ast.Inspect(fd.Body, func(n ast.Node) bool {
		blk, ok := n.(*ast.BlockStmt)
		if !ok {
			return true
		}
		assignsOpt := false
		var cands []types.Object
		for _, st := range blk.List {
			as, ok := st.(*ast.AssignStmt)
			if !ok {
				continue
			}
			for i, lhs := range as.Lhs {
				o := identObj(w, lhs)
				if o == optVar {
					assignsOpt = true
				}
				if i < len(as.Rhs) {
					if id, ok := as.Rhs[i].(*ast.Ident); ok && id.Name == "true" && o != nil {
						cands = append(cands, o)
					}
				}
			}
		}
		if assignsOpt {
			for _, c := range cands {
				flags[c] = true
			}
		}
		return true
	})
	var objs []types.Object
	objs = append(objs, argsVar)
	for f := range flags {
		objs = append(objs, f)
	}
	for p := ast.Node(ifs); p != nil; p = w.parents[p] {
		if x, ok := p.(*ast.IfStmt); ok {
			if x != ifs && w.mentions(x.Cond, objs...) {
				return true
			}
			// `else if` chains: the previous condition of the chain counts as well
		}
		if _, ok := p.(*ast.FuncDecl); ok {
			break
		}
	}
	return false
}

// checkSortComparators (R19.4): sort.Slice / sort.SliceStable swap the elements of the slice they
// are given and call less(i, j) with positions in THAT slice.  A less function that indexes a
// different container with i and j (a pre-computed key slice, the unsorted original) compares
// stale positions after the first swap, so the result is a permutation that is not ordered.
func checkSortComparators(w *World, r *Report) {
	reach := w.renderOnlyReachable()
	n := 0
	for _, fd := range w.sortedDecls() {
		obj := w.Info.Defs[fd.Name].(*types.Func)
		if !reach[w.ssaFunc(obj)] {
			continue
		}
		fname := w.declName(fd)
		ast.Inspect(fd.Body, func(nd ast.Node) bool {
			c, ok := nd.(*ast.CallExpr)
			if !ok || len(c.Args) != 2 {
				return true
			}
			if !(w.calleeIs(c, "sort", "", "Slice") || w.calleeIs(c, "sort", "", "SliceStable")) {
				return true
			}
			lit, ok := c.Args[1].(*ast.FuncLit)
			if !ok || lit.Type.Params == nil {
				return true
			}
			var params []types.Object
			for _, f := range lit.Type.Params.List {
				for _, nm := range f.Names {
					params = append(params, w.Info.Defs[nm])
				}
			}
			if len(params) != 2 {
				return true
			}
			n++
			// the sorted container: X itself, or V where X is V.Interface()
			sorted := types.ExprString(ast.Unparen(c.Args[0]))
			if ic, ok := ast.Unparen(c.Args[0]).(*ast.CallExpr); ok {
				if sel, ok := ic.Fun.(*ast.SelectorExpr); ok && sel.Sel.Name == "Interface" {
					sorted = types.ExprString(sel.X)
				}
			}
			var foreign []string
			ast.Inspect(lit.Body, func(m ast.Node) bool {
				var base, idx ast.Expr
				switch x := m.(type) {
				case *ast.IndexExpr:
					base, idx = x.X, x.Index
				case *ast.CallExpr:
					if sel, ok := x.Fun.(*ast.SelectorExpr); ok && sel.Sel.Name == "Index" && len(x.Args) == 1 && isNamed(w.Info.TypeOf(sel.X), "reflect", "Value") {
						base, idx = sel.X, x.Args[0]
					}
				}
				if base == nil {
					return true
				}
				if !w.mentions(idx, params...) {
					return true
				}
				if b := types.ExprString(ast.Unparen(base)); b != sorted {
					foreign = append(foreign, b)
				}
				return true
			})
			construct := "less function of sort over " + sorted
			if len(foreign) == 0 {
				r.ok("R19.4", fname, construct, w.pos(c), "i and j index only the slice being sorted", true)
			} else {
				sort.Strings(foreign)
				r.bad("R19.4", fname, construct, w.pos(c), fmt.Sprintf("the less function indexes %v with the positions i, j of %s: after the first swap those positions describe other elements, so the result is a permutation that is not ordered", uniq(foreign), sorted))
			}
			return true
		})
	}
	r.Counts["sort.Slice comparators on render paths"] = n
}

// registrationTable: if cl is a registration table for values of type valT — a map literal
// map[string]valT, or a slice literal of rows that pair one string constant with one valT value
// ([]struct{name string; fn valT}{{"escape", e.filterEscape}, …}) — the name → bound object pairs.
func (w *World) registrationTable(cl *ast.CompositeLit, valTs ...types.Type) (map[string]types.Object, bool) {
	isVal := func(t types.Type) bool {
		for _, v := range valTs {
			if t != nil && types.Identical(t, v) {
				return true
			}
		}
		return false
	}
	objOf := func(e ast.Expr) types.Object {
		switch v := ast.Unparen(e).(type) {
		case *ast.SelectorExpr:
			return w.Info.Uses[v.Sel]
		case *ast.Ident:
			return w.Info.Uses[v]
		}
		return nil
	}
	out := map[string]types.Object{}
	switch t := w.Info.TypeOf(cl).Underlying().(type) {
	case *types.Map:
		if !isVal(t.Elem()) {
			return nil, false
		}
		for _, el := range cl.Elts {
			kv, ok := el.(*ast.KeyValueExpr)
			if !ok {
				continue
			}
			tv := w.Info.Types[kv.Key]
			if tv.Value == nil || tv.Value.Kind() != constant.String {
				continue
			}
			out[constant.StringVal(tv.Value)] = objOf(kv.Value)
		}
		return out, true
	case *types.Slice:
		st, ok := t.Elem().Underlying().(*types.Struct)
		if !ok {
			return nil, false
		}
		hasStr, hasVal := false, false
		for i := 0; i < st.NumFields(); i++ {
			ft := st.Field(i).Type()
			if types.Identical(ft.Underlying(), types.Typ[types.String]) {
				hasStr = true
			}
			if isVal(ft) {
				hasVal = true
			}
		}
		if !hasStr || !hasVal {
			return nil, false
		}
		for _, el := range cl.Elts {
			row, ok := ast.Unparen(el).(*ast.CompositeLit)
			if !ok {
				continue
			}
			name := ""
			var obj types.Object
			for _, re := range row.Elts {
				v := re
				if kv, ok := re.(*ast.KeyValueExpr); ok {
					v = kv.Value
				}
				if tv := w.Info.Types[v]; tv.Value != nil && tv.Value.Kind() == constant.String {
					name = constant.StringVal(tv.Value)
				} else if isVal(w.Info.TypeOf(v)) || objOf(v) != nil {
					if o := objOf(v); o != nil {
						obj = o
					}
				}
			}
			if name != "" {
				out[name] = obj
			}
		}
		return out, true
	}
	return nil, false
}

// checkMeasureByShape — R19.5: how many elements a value has is decided by what the value IS
// (its kind), not by what it can do.  In the sibling implementations that give values element
// semantics (length, count, first, last, slice, reverse and the helpers they hand the value to),
// the data value is never asserted to an interface that has methods (fmt.Stringer, error, …): a
// named list or map type that happens to print itself would be measured by its printed form,
// while the for loop, first and slice go on seeing its elements.
func checkMeasureByShape(w *World, r *Report) {
	scope := map[*ssa.Function]string{}
	for f, nm := range w.registered(elementSemanticsNames) {
		scope[w.ssaFunc(f)] = nm
	}
	for round := 0; round < 2; round++ {
		for fn, nm := range scope {
			instrsOf(fn, func(in ssa.Instruction) {
				c, ok := in.(*ssa.Call)
				if !ok {
					return
				}
				g := c.Call.StaticCallee()
				if g == nil || !w.inPkg(g) || scope[g] != "" {
					return
				}
				for i, a := range c.Call.Args {
					if i < len(g.Params) {
						if it, ok := g.Params[i].Type().Underlying().(*types.Interface); ok && it.NumMethods() == 0 {
							if _, isParam := dataParam(a); isParam {
								scope[g] = nm
							}
						}
					}
				}
			})
		}
	}
	n := 0
	for fn, nm := range scope {
		if fn == nil {
			continue
		}
		instrsOf(fn, func(in ssa.Instruction) {
			ta, ok := in.(*ssa.TypeAssert)
			if !ok {
				return
			}
			if _, isParam := dataParam(ta.X); !isParam {
				return
			}
			n++
			it, isI := ta.AssertedType.Underlying().(*types.Interface)
			if isI && it.NumMethods() > 0 {
				r.bad("R19.5", ssaName(fn), "the value is classified by its shape ("+nm+")", w.posOf(ta.Pos()), "the data value is asked whether it implements "+types.TypeString(ta.AssertedType, nil)+" before its kind is looked at: a list or map type with such a method is measured through the method (its printed form) here, while the other element operations and the for loop see its elements — length no longer equals the number of elements they observe")
			}
		})
	}
	r.ok("R19.5", "(sibling implementations)", "values are classified by type and kind only", "-", fmt.Sprintf("%d type assertions on the data value examined", n), true)
	r.floor("type assertions on the data value in sibling implementations", n, 5)
}

// checkNoBoxedNumberComparisons — R19.6: a template value is never compared, as an interface, with
// a boxed numeric constant.  Numbers reach filters as int, int64, float64 (literals, arithmetic,
// context data, decoded JSON): `v == 0` with v of type interface{} is true for int(0) only, so a
// filter that settles "is it zero / empty" that way treats 0.0 and int64(0) as non-empty.  (In a
// type switch clause listing several types the variable keeps the interface type: this is where
// the comparison usually comes from.)
func checkNoBoxedNumberComparisons(w *World, r *Report) {
	n := 0
	for _, fn := range w.pkgFuncs() {
		instrsOf(fn, func(in ssa.Instruction) {
			bo, ok := in.(*ssa.BinOp)
			if !ok || (bo.Op != token.EQL && bo.Op != token.NEQ) {
				return
			}
			boxedNum := func(v ssa.Value) (string, bool) {
				mi, ok := v.(*ssa.MakeInterface)
				if !ok {
					return "", false
				}
				c, ok := mi.X.(*ssa.Const)
				if !ok || c.Value == nil {
					return "", false
				}
				if b, ok := c.Type().Underlying().(*types.Basic); ok && b.Info()&types.IsNumeric != 0 {
					return c.Value.ExactString() + " (" + b.Name() + ")", true
				}
				return "", false
			}
			var other ssa.Value
			what, ok := boxedNum(bo.Y)
			other = bo.X
			if !ok {
				what, ok = boxedNum(bo.X)
				other = bo.Y
			}
			if !ok {
				return
			}
			it, isIface := other.Type().Underlying().(*types.Interface)
			if !isIface || it.NumMethods() != 0 {
				return
			}
			n++
			r.bad("R19.6", ssaName(fn), "interface value compared with boxed "+what, w.posOf(bo.Pos()), "the comparison is true for one Go type of number only: the same number arriving as float64 or int64 (a float literal, the result of arithmetic, decoded JSON) takes the other branch, so the filter's answer depends on how the number is represented")
		})
	}
	r.Counts["comparisons of interface values with boxed numeric constants"] = n
}

// checkFilterChainsRunToTheEnd — R19.7: every filter written in a chain is applied.  In a function
// that walks a list of filter-chain items and applies each (a call of ApplyFilter inside the
// loop), the loop is left before the list is exhausted only by a return that carries the error of
// a filter: no `break` on a nil or empty intermediate value.  `default`, `length`, `escape` are
// written precisely to be applied to such values — `[]|first|default('x')` has to reach default.
func checkFilterChainsRunToTheEnd(w *World, r *Report, rule string) {
	apply := w.method("RenderContext", "ApplyFilter")
	itemT := w.named("FilterChainItem")
	n := 0
	for _, fn := range w.pkgFuncs() {
		var site ssa.Instruction
		instrsOf(fn, func(in ssa.Instruction) {
			if c, ok := in.(ssa.CallInstruction); ok && calleeFunc(c) == apply && site == nil {
				site = in
			}
		})
		if site == nil {
			continue
		}
		// the loop around the call that walks a []FilterChainItem
		var h *ssa.BasicBlock
		for d := site.Block(); d != nil && h == nil; d = d.Idom() {
			for _, p := range d.Preds {
				if d.Dominates(p) {
					h = d
				}
			}
		}
		if h == nil {
			continue
		}
		walks := false
		instrsOf(fn, func(in ssa.Instruction) {
			if ia, ok := in.(*ssa.IndexAddr); ok {
				if sl, ok := ia.X.Type().Underlying().(*types.Slice); ok && types.Identical(sl.Elem(), itemT) {
					walks = true
				}
			}
		})
		if !walks {
			continue
		}
		n++
		body := map[*ssa.BasicBlock]bool{h: true}
		var stack []*ssa.BasicBlock
		for _, p := range h.Preds {
			if h.Dominates(p) && !body[p] {
				body[p] = true
				stack = append(stack, p)
			}
		}
		for len(stack) > 0 {
			b := stack[len(stack)-1]
			stack = stack[:len(stack)-1]
			for _, p := range b.Preds {
				if !body[p] {
					body[p] = true
					stack = append(stack, p)
				}
			}
		}
		ei := errResultIndex(fn.Signature)
		bad := ""
		for b := range body {
			if b == h {
				continue
			}
			for _, s := range b.Succs {
				if body[s] {
					continue
				}
				// leaving from inside: fine if every path from s returns a non-nil error at once
				okExit := false
				if len(s.Instrs) > 0 {
					if ret, isRet := s.Instrs[len(s.Instrs)-1].(*ssa.Return); isRet && ei >= 0 {
						res := retResults(ret)
						if ei < len(res) && !isNilConst(res[ei]) {
							okExit = true
						}
					}
				}
				if !okExit {
					bad = w.posOf(b.Instrs[len(b.Instrs)-1].Pos())
					if bad == "" || bad == "-" {
						bad = fmt.Sprintf("block %d", b.Index)
					}
				}
			}
			// a return inside the body itself
			if len(b.Instrs) > 0 {
				if ret, isRet := b.Instrs[len(b.Instrs)-1].(*ssa.Return); isRet && ei >= 0 {
					res := retResults(ret)
					if ei < len(res) && isNilConst(res[ei]) {
						bad = w.posOf(ret.Pos())
					}
				}
			}
		}
		construct := "the walk over the filter chain ends by exhaustion or with a filter's error"
		if bad == "" {
			r.ok(rule, ssaName(fn), construct, w.posOf(site.Pos()), "no other way out of the loop", true)
		} else {
			r.bad(rule, ssaName(fn), construct, w.posOf(site.Pos()), "the loop that applies the filters can be left ("+bad+") before the chain is exhausted and without an error: the filters written after that point — default, length, escape — are silently not applied, so a chain gives another result than the same filters applied one after the other")
		}
	}
	r.floor("loops applying a filter chain", n, 1)
}

// checkDataNumbersAreDecimal — R19.8: text that holds a number is read in base ten.  On render
// paths no strconv.ParseInt / ParseUint call has the constant base 0: base 0 reads a leading 0 as
// octal and 0x / 0b prefixes as other bases, so `'010'|abs` is 8 and `'0755'|number_format` is 493,
// while the same text is 10 and 755 wherever it goes through ParseFloat.
func checkDataNumbersAreDecimal(w *World, r *Report) {
	reach := w.renderReachable()
	n := 0
	for _, fn := range w.pkgFuncs() {
		if !reach[fn] {
			continue
		}
		instrsOf(fn, func(in ssa.Instruction) {
			c, ok := in.(*ssa.Call)
			if !ok {
				return
			}
			g := c.Call.StaticCallee()
			if g == nil || (g.String() != "strconv.ParseInt" && g.String() != "strconv.ParseUint") || len(c.Call.Args) < 2 {
				return
			}
			n++
			construct := "integer text parsed in a fixed base"
			if k, ok := c.Call.Args[1].(*ssa.Const); ok && k.Value != nil && k.Int64() == 0 {
				r.bad("R19.8", ssaName(fn), construct, w.posOf(in.Pos()), "base 0 lets the text choose the base: a zero-padded decimal string is read as octal and 0x… as hexadecimal, so the filter's result for a numeric string depends on how the digits are padded")
			} else {
				r.ok("R19.8", ssaName(fn), construct, w.posOf(in.Pos()), "the base is not 0", false)
			}
		})
	}
	r.Counts["strconv integer parses on render paths"] = n
}
