package main

// C14 — template length and tag position do not change how a template is read.
//
// R14.1 size may select capacity, never an algorithm: a branch that compares a size value
//       (len/cap of a string/slice, or a size/capacity parameter, or arithmetic on them) with a
//       constant >= 16 must not decide WHICH token-, node- or output-producing function runs:
//       the sets of "semantic" callees in the two exclusive successor regions must be equal.
// R14.2 growth preserves content: a re-allocation of a buffer field that may hold data, in a
//       function that produces tokens or output, copies the old content.

import (
	"fmt"
	"go/ast"
	"go/constant"
	"go/token"
	"go/types"
	"sort"
	"strings"

	"golang.org/x/tools/go/ssa"
)

func init() { register("C14", checkC14) }

func sizeValue(v ssa.Value, depth int) (string, bool) {
	if depth > 4 {
		return "", false
	}
	switch x := v.(type) {
	case *ssa.Call:
		if b, ok := x.Call.Value.(*ssa.Builtin); ok && (b.Name() == "len" || b.Name() == "cap") && len(x.Call.Args) == 1 {
			switch t := x.Call.Args[0].Type().Underlying().(type) {
			case *types.Basic:
				if t.Info()&types.IsString != 0 {
					return b.Name() + "(" + describe(x.Call.Args[0]) + ")", true
				}
			case *types.Slice:
				return b.Name() + "(" + describe(x.Call.Args[0]) + ")", true
			}
		}
		if g := x.Call.StaticCallee(); g != nil && g.Signature.Recv() != nil && g.Signature.Params().Len() == 0 && (g.Name() == "Size" || g.Name() == "Len" || g.Name() == "Cap") {
			if b, ok := x.Type().Underlying().(*types.Basic); ok && b.Info()&types.IsInteger != 0 {
				return describe(x.Call.Args[0]) + "." + g.Name() + "()", true
			}
		}
	case *ssa.Parameter:
		if b, ok := x.Type().Underlying().(*types.Basic); ok && b.Info()&types.IsInteger != 0 {
			n := strings.ToLower(x.Name())
			for _, k := range []string{"size", "cap", "hint", "len"} {
				if strings.Contains(n, k) {
					return x.Name(), true
				}
			}
		}
	case *ssa.BinOp:
		switch x.Op {
		case token.ADD, token.SUB, token.MUL, token.QUO, token.SHL, token.SHR:
			if s, ok := sizeValue(x.X, depth+1); ok {
				return s + " " + x.Op.String() + " …", true
			}
			if s, ok := sizeValue(x.Y, depth+1); ok {
				return "… " + x.Op.String() + " " + s, true
			}
		}
	case *ssa.Phi:
		for _, e := range x.Edges {
			if s, ok := sizeValue(e, depth+1); ok {
				return s, true
			}
		}
	case *ssa.Convert:
		return sizeValue(x.X, depth+1)
	}
	return "", false
}

func describe(v ssa.Value) string {
	switch x := v.(type) {
	case *ssa.UnOp:
		if x.Op == token.MUL {
			if fa, ok := x.X.(*ssa.FieldAddr); ok {
				tn, f := fieldOfAddr(fa)
				return tn + "." + f
			}
			return "*" + describe(x.X)
		}
	case *ssa.Parameter:
		return x.Name()
	case *ssa.Slice:
		return describe(x.X) + "[:]"
	}
	return "<" + v.Type().String() + ">"
}

// semanticFuncs: functions that (transitively) produce tokens, parse-tree nodes or output.
func (w *World) semanticFuncs() map[*ssa.Function]bool {
	tokenT := w.named("Token")
	out := map[*ssa.Function]bool{}
	ioWriter := func(t types.Type) bool { return isNamed(t, "io", "Writer") }
	for _, fn := range w.pkgFuncs() {
		seed := false
		// (b) returns a parse-tree node
		res := fn.Signature.Results()
		for i := 0; i < res.Len(); i++ {
			t := res.At(i).Type()
			if isNamed(t, twigPath, "Node") || (w.implementsNode(t) && !types.IsInterface(t)) {
				seed = true
			}
			if sl, ok := t.Underlying().(*types.Slice); ok && types.Identical(sl.Elem(), tokenT) {
				seed = true
			}
		}
		instrsOf(fn, func(in ssa.Instruction) {
			c, ok := in.(ssa.CallInstruction)
			if !ok {
				return
			}
			cc := c.Common()
			// (a) appends to a []Token
			if b, ok := cc.Value.(*ssa.Builtin); ok && b.Name() == "append" && len(cc.Args) > 0 {
				if sl, ok := cc.Args[0].Type().Underlying().(*types.Slice); ok && types.Identical(sl.Elem(), tokenT) {
					seed = true
				}
			}
			// (c) writes to an io.Writer
			if cc.IsInvoke() && ioWriter(cc.Value.Type()) {
				seed = true
			}
		})
		if seed {
			out[fn] = true
		}
	}
	g := w.callgraph()
	for changed := true; changed; {
		changed = false
		for fn, node := range g.Nodes {
			if fn == nil || out[fn] || !w.inPkg(fn) {
				continue
			}
			for _, e := range node.Out {
				if out[e.Callee.Func] {
					out[fn] = true
					changed = true
					break
				}
			}
		}
	}
	return out
}

func checkC14(w *World, r *Report) {
	r.Explanation = "Decides the length-independence clause of C14: (R14.1) in every function reachable from parse or render roots, a branch on a size value (len/cap of a string or slice, a size/capacity parameter, arithmetic on them) against a constant >= 16 never decides which token-, node- or output-producing function runs — the two exclusive successor regions call the same set of such functions, so a size class can select capacities and fast paths of allocation only; (R14.2) every re-allocation of a buffer in a token/output producing function copies the old content. (R14.3) no string/slice header is manufactured over live buffer memory; (R14.4) template data is never cut at a constant position >= 16 (scan windows, chunks). Not decided: that the single tokenizer treats a tag identically at every byte offset (value-level arithmetic). R14.4 also forbids constant read limits (io.LimitReader, io.CopyN, io.LimitedReader, a single Read into a constant buffer) on the way from a loader to the parser; (R14.5) no loop that walks a []Node or []Token compares its index with a constant >= 1."
	r.Explanation += " Rules added in later rounds: (R14.6) results do not depend on size classes; (R14.7) chain walks are not bounded by constants. (R14.8) Parse succeeds only behind the parser. (R14.9) parse trees are not entered into tables."
	r.Explanation += " Round 9: (R14.10) stored trees come from Parse; (R14.11) sizes and positions are not narrowed below 32 bits."
	r.Explanation += " Round 10: (R14.12) token lists are not filtered by what the tokens are."
	r.Explanation += " Round 11: (R14.13) Parse gets the source unchanged."
	r.Explanation += " Round 12: (R14.14) bracketing counters are balanced on every successful way out."
	r.RuleText = "obligation = one size-threshold branch (or one buffer re-allocation); non-trivial = all (each needs the exclusive regions and their callee sets computed)"
	r.Trusted = []string{"call graph over-approximation", "classification of 'semantic' functions by role: appends to []Token, returns Node/[]Token, writes to io.Writer, or calls such a function"}

	sem := w.semanticFuncs()
	r.floor("semantic (token/node/output producing) functions", len(sem), 50)
	reach := w.renderReachable()
	for f := range w.parseReachable() {
		reach[f] = true
	}
	g := w.callgraph()
	nBranches := 0
	for _, fn := range w.pkgFuncs() {
		if !reach[fn] {
			continue
		}
		// callees per call site
		siteCallees := map[ssa.Instruction][]*ssa.Function{}
		if n := g.Nodes[fn]; n != nil {
			for _, e := range n.Out {
				if e.Site != nil {
					siteCallees[e.Site] = append(siteCallees[e.Site], e.Callee.Func)
				}
			}
		}
		for _, b := range fn.Blocks {
			v, trueIdx, ok := ifCond(b)
			if !ok {
				continue
			}
			bo, ok := v.(*ssa.BinOp)
			if !ok {
				continue
			}
			switch bo.Op {
			case token.LSS, token.LEQ, token.GTR, token.GEQ:
			default:
				continue
			}
			var sz string
			var cst *ssa.Const
			if c, ok := bo.Y.(*ssa.Const); ok {
				if s, ok := sizeValue(bo.X, 0); ok {
					sz, cst = s, c
				}
			} else if c, ok := bo.X.(*ssa.Const); ok {
				if s, ok := sizeValue(bo.Y, 0); ok {
					sz, cst = s, c
				}
			}
			if cst == nil || cst.Value == nil || cst.Value.Kind() != constant.Int {
				continue
			}
			th, _ := constant.Int64Val(cst.Value)
			if th < 16 {
				continue
			}
			nBranches++
			tSucc, fSucc := b.Succs[trueIdx], b.Succs[1-trueIdx]
			region := func(s, other *ssa.BasicBlock) map[string]bool {
				set := map[string]bool{}
				if len(s.Preds) != 1 {
					return set // join block: nothing is exclusive to this side
				}
				for _, blk := range fn.Blocks {
					if blk != s && !s.Dominates(blk) {
						continue
					}
					for _, in := range blk.Instrs {
						c, ok := in.(ssa.CallInstruction)
						if !ok {
							continue
						}
						var cs []*ssa.Function
						if f := c.Common().StaticCallee(); f != nil {
							cs = []*ssa.Function{f}
						} else {
							cs = siteCallees[in]
						}
						for _, f := range cs {
							if sem[f] {
								set[ssaName(f)] = true
							}
						}
					}
				}
				return set
			}
			st, sf := region(tSucc, fSucc), region(fSucc, tSucc)
			var onlyT, onlyF []string
			for k := range st {
				if !sf[k] {
					onlyT = append(onlyT, k)
				}
			}
			for k := range sf {
				if !st[k] {
					onlyF = append(onlyF, k)
				}
			}
			sort.Strings(onlyT)
			sort.Strings(onlyF)
			construct := fmt.Sprintf("%s %s %d", sz, bo.Op, th)
			if len(onlyT)+len(onlyF) == 0 {
				r.ok("R14.1", ssaName(fn), construct, w.posOf(bo.Pos()), "both exclusive regions call the same token/node/output producing functions (capacity-only branch)", true)
			} else {
				r.bad("R14.1", ssaName(fn), construct, w.posOf(bo.Pos()), fmt.Sprintf("the size class selects an algorithm: only the true side calls {%s}, only the false side calls {%s} — a template is read differently below and above the threshold", strings.Join(onlyT, ", "), strings.Join(onlyF, ", ")))
			}
		}
	}
	r.floor("size-threshold branches on parse/render paths", nBranches, 1)

	// ---- R14.2: growth preserves content
	nGrow := 0
	tokenT := w.named("Token")
	// growable buffers: fields that are appended to somewhere (x.f = append(x.f, …))
	growable := map[string]bool{}
	for _, fn := range w.pkgFuncs() {
		instrsOf(fn, func(in ssa.Instruction) {
			st, ok := in.(*ssa.Store)
			if !ok {
				return
			}
			fa, ok := st.Addr.(*ssa.FieldAddr)
			if !ok {
				return
			}
			if c, ok := st.Val.(*ssa.Call); ok {
				if b, ok := c.Call.Value.(*ssa.Builtin); ok && b.Name() == "append" {
					tn, f := fieldOfAddr(fa)
					growable[tn+"."+f] = true
				}
			}
		})
	}
	for _, fn := range w.pkgFuncs() {
		if !reach[fn] {
			continue
		}
		instrsOf(fn, func(in ssa.Instruction) {
			st, ok := in.(*ssa.Store)
			if !ok {
				return
			}
			fa, ok := st.Addr.(*ssa.FieldAddr)
			if !ok {
				return
			}
			ms, ok := st.Val.(*ssa.MakeSlice)
			if !ok {
				return
			}
			sl, ok := ms.Type().Underlying().(*types.Slice)
			if !ok {
				return
			}
			isBuf := types.Identical(sl.Elem(), tokenT) || types.Identical(sl.Elem(), types.Typ[types.Byte])
			if !isBuf {
				return
			}
			tn, f := fieldOfAddr(fa)
			if !growable[tn+"."+f] {
				return // never appended to: not a buffer that accumulates data
			}
			nGrow++
			construct := fmt.Sprintf("re-allocation of %s.%s", tn, f)
			// either the old content is copied into the new slice, or the new slice has length
			// zero and the function is an acquire/reset function (the buffer is being emptied)
			copied := false
			if ms.Referrers() != nil {
				for _, ref := range *ms.Referrers() {
					if c, ok := ref.(ssa.CallInstruction); ok {
						if b, ok := c.Common().Value.(*ssa.Builtin); ok && b.Name() == "copy" && c.Common().Args[0] == ms {
							copied = true
						}
					}
				}
			}
			zeroLen := false
			if c, ok := ms.Len.(*ssa.Const); ok && c.Value != nil && c.Value.ExactString() == "0" {
				zeroLen = true
			}
			// does the function also truncate the same field ([:0]) on the other path / is it a reset?
			resets := false
			instrsOf(fn, func(in2 ssa.Instruction) {
				if st2, ok := in2.(*ssa.Store); ok && st2 != st {
					if fa2, ok := st2.Addr.(*ssa.FieldAddr); ok && fa2.Field == fa.Field && types.Identical(fa2.X.Type(), fa.X.Type()) && isZeroValue(st2.Val) {
						resets = true
					}
				}
			})
			switch {
			case copied:
				r.ok("R14.2", ssaName(fn), construct, w.posOf(in.Pos()), "old content copied into the new buffer", true)
			case zeroLen && resets:
				r.ok("R14.2", ssaName(fn), construct, w.posOf(in.Pos()), "the buffer is being reset (the alternative path truncates it to length 0)", true)
			default:
				r.bad("R14.2", ssaName(fn), construct, w.posOf(in.Pos()), "a buffer that may hold tokens/bytes is replaced by a fresh slice without copying its content")
			}
		})
	}
	r.Counts["buffer re-allocations in producing functions"] = nGrow
	checkNoAliasedHeaders(w, r, "R14.3")
	checkConstantCuts(w, r, reach)
	checkConstantScanBounds(w, r, reach)
	checkSizeDecidedResults(w, r, reach)
	checkChainWalkBounds(w, r, "R14.7")
	checkParseAlwaysParses(w, r, "R14.8")
	checkParseTreesNotMemoised(w, r)
	checkTreesAreParsed(w, r)
	checkSizesNotNarrowed(w, r)
	checkParseGetsTheSource(w, r, "R14.13")
	checkCountersBalanced(w, r)
	// (R14.12) tokens once emitted stay in the stream: no element-wise copy of a token list keeps or drops a token by what it is
	checkListsNotFiltered(w, r, "R14.12", w.named("Token"), "token", "tokens already emitted (comments, text) are removed from the stream — and only when the buffer happens to be full, so what a construct means depends on how much template precedes it")
}

// checkNoAliasedHeaders (R14.3 / R01.7): no string or slice header is manufactured over memory
// the package keeps writing to.  unsafe.String / unsafe.Slice and the *(*string)(unsafe.Pointer(&b))
// idiom hand out a value that changes when the underlying (pooled, reset, re-used) buffer is
// written again: a rendered result would change after it was returned — typically only for
// results above some size class.  Reading through unsafe.StringData / unsafe.Add is not affected.
func checkNoAliasedHeaders(w *World, r *Report, rule string) {
	n := 0
	for _, fd := range w.sortedDecls() {
		if fd.Body == nil {
			continue
		}
		fname := w.declName(fd)
		ast.Inspect(fd.Body, func(nd ast.Node) bool {
			call, ok := nd.(*ast.CallExpr)
			if !ok {
				return true
			}
			// unsafe.String / unsafe.Slice
			if sel, ok := ast.Unparen(call.Fun).(*ast.SelectorExpr); ok {
				if id, ok := sel.X.(*ast.Ident); ok {
					if pn, ok := w.Info.Uses[id].(*types.PkgName); ok && pn.Imported().Path() == "unsafe" && (sel.Sel.Name == "String" || sel.Sel.Name == "Slice") {
						n++
						r.bad(rule, fname, "unsafe."+sel.Sel.Name, w.pos(call), "a "+strings.ToLower(sel.Sel.Name)+" header is built over existing memory instead of copying it: the value handed out changes when the buffer it points into is reset and written again (results differ by history, usually only above a size threshold)")
					}
				}
				return true
			}
			// (*string)(unsafe.Pointer(&x)) / (*[]byte)(unsafe.Pointer(&s))
			if tv, ok := w.Info.Types[call.Fun]; ok && tv.IsType() && len(call.Args) == 1 {
				if p, ok := tv.Type.Underlying().(*types.Pointer); ok {
					isStr := types.Identical(p.Elem().Underlying(), types.Typ[types.String])
					_, isSl := p.Elem().Underlying().(*types.Slice)
					if isStr || isSl {
						if at := w.Info.TypeOf(call.Args[0]); at != nil && types.Identical(at, types.Typ[types.UnsafePointer]) {
							n++
							r.bad(rule, fname, "header reinterpretation through unsafe.Pointer", w.pos(call), "a string/slice header is reinterpreted over another value's memory instead of copying: the result aliases a buffer that is written again later")
						}
					}
				}
			}
			return true
		})
	}
	if n == 0 {
		r.ok(rule, "(package)", "no string/slice header is manufactured over live buffer memory", "-", "no unsafe.String, unsafe.Slice or header reinterpretation in the package", false)
	}
}

// checkConstantCuts (R14.4): template data is never cut at a constant position.  A slice
// expression s[a:K] or s[K:] with a constant K >= 16 on a string, []byte or []Token in a function
// on the parse or render paths divides the input by absolute size (a scan window, a chunk, a
// truncation): what the following code sees then depends on where in the template a tag or a run
// of text happens to lie.  ([:0] resets and small constant prefixes are not affected.)
func checkConstantCuts(w *World, r *Report, reach map[*ssa.Function]bool) {
	tokenT := w.named("Token")
	n := 0
	for _, fn := range w.pkgFuncs() {
		if !reach[fn] {
			continue
		}
		instrsOf(fn, func(in ssa.Instruction) {
			sl, ok := in.(*ssa.Slice)
			if !ok {
				return
			}
			data := false
			switch t := sl.X.Type().Underlying().(type) {
			case *types.Basic:
				data = t.Info()&types.IsString != 0
			case *types.Slice:
				if b, ok := t.Elem().Underlying().(*types.Basic); ok && b.Kind() == types.Uint8 {
					data = true
				}
				if types.Identical(t.Elem(), tokenT) {
					data = true
				}
			}
			if !data {
				return
			}
			for _, bound := range []ssa.Value{sl.Low, sl.High} {
				if bound == nil {
					continue
				}
				c, ok := bound.(*ssa.Const)
				if !ok || c.Value == nil || c.Value.Kind() != constant.Int {
					continue
				}
				k, _ := constant.Int64Val(c.Value)
				if k < 16 {
					continue
				}
				n++
				r.bad("R14.4", ssaName(fn), "data cut at a constant position", w.posOf(in.Pos()), fmt.Sprintf("the input (or token/text data) is sliced at the constant offset %d: the rest of the algorithm sees a window or chunk whose boundary is an absolute size, so a tag, a run of whitespace or a piece of text that straddles it is read differently from the same construct elsewhere", k))
			}
		})
	}
	// … and never read through a constant limit: io.LimitReader / io.CopyN / io.LimitedReader with
	// a constant, or one Read-family call (outside any loop) into a buffer of constant size, on
	// the way from a loader to the parser.  A limit that is meant to refuse large files truncates
	// them unless the read asks for limit+1 bytes; either way the template's meaning changes at
	// an absolute size.
	loadReach := w.reachableFrom(w.loaderRoots())
	inLoop := func(b *ssa.BasicBlock) bool {
		seen := map[*ssa.BasicBlock]bool{}
		var walk func(x *ssa.BasicBlock) bool
		walk = func(x *ssa.BasicBlock) bool {
			for _, s := range x.Succs {
				if s == b {
					return true
				}
				if !seen[s] {
					seen[s] = true
					if walk(s) {
						return true
					}
				}
			}
			return false
		}
		return walk(b)
	}
	constInt := func(v ssa.Value) (int64, bool) {
		for k := 0; k < 3; k++ {
			if cv, ok := v.(*ssa.Convert); ok {
				v = cv.X
			}
		}
		c, ok := v.(*ssa.Const)
		if !ok || c.Value == nil || c.Value.Kind() != constant.Int {
			return 0, false
		}
		k, _ := constant.Int64Val(c.Value)
		return k, true
	}
	nLim := 0
	for _, fn := range w.pkgFuncs() {
		if !reach[fn] && !loadReach[fn] {
			continue
		}
		instrsOf(fn, func(in ssa.Instruction) {
			switch x := in.(type) {
			case *ssa.Call:
				f := calleeFunc(x)
				if f == nil || f.Pkg() == nil {
					return
				}
				full := f.FullName()
				args := x.Call.Args
				switch full {
				case "io.LimitReader":
					if k, ok := constInt(args[1]); ok && k >= 16 {
						nLim++
						r.bad("R14.4", ssaName(fn), "data read through a constant limit", w.posOf(in.Pos()), fmt.Sprintf("template data is read through io.LimitReader with the constant limit %d: a source longer than that is silently cut there (a later `len > limit` test can never fire, the reader never yields more), so text and tags behind the limit vanish — the template renders differently below and above an absolute size", k))
					}
				case "io.CopyN":
					if k, ok := constInt(args[2]); ok && k >= 16 {
						nLim++
						r.bad("R14.4", ssaName(fn), "data read through a constant limit", w.posOf(in.Pos()), fmt.Sprintf("template data is copied with io.CopyN and the constant count %d: a longer source is cut at an absolute size", k))
					}
				case "io.ReadFull", "io.ReadAtLeast", "(*os.File).Read", "(*os.File).ReadAt", "(*bufio.Reader).Read":
					var buf ssa.Value
					for _, a := range args {
						if sl, ok := a.Type().Underlying().(*types.Slice); ok {
							if b, ok := sl.Elem().Underlying().(*types.Basic); ok && b.Kind() == types.Uint8 {
								buf = a
							}
						}
					}
					if buf == nil || inLoop(in.Block()) {
						return
					}
					if s2, ok := buf.(*ssa.Slice); ok {
						buf = s2.X
					}
					if ms, ok := unspill(buf).(*ssa.MakeSlice); ok {
						if k, ok := constInt(ms.Len); ok && k >= 16 {
							nLim++
							r.bad("R14.4", ssaName(fn), "data read through a constant limit", w.posOf(in.Pos()), fmt.Sprintf("template data is read once into a buffer of the constant size %d: a longer source is cut at an absolute size", k))
						}
					}
				}
			case *ssa.Store:
				// &io.LimitedReader{N: const}
				if fa, ok := x.Addr.(*ssa.FieldAddr); ok && isNamed(fa.X.Type(), "io", "LimitedReader") {
					if _, f := fieldOfAddr(fa); f == "N" {
						if k, ok := constInt(x.Val); ok && k >= 16 {
							nLim++
							r.bad("R14.4", ssaName(fn), "data read through a constant limit", w.posOf(in.Pos()), fmt.Sprintf("template data is read through an io.LimitedReader with the constant limit %d: a longer source is cut at an absolute size", k))
						}
					}
				}
			}
		})
	}
	if n == 0 && nLim == 0 {
		r.ok("R14.4", "(package)", "template data is never cut at a constant position", "-", "no slice expression with a constant bound >= 16 on strings, bytes or tokens, and no constant read limit, on load/parse/render paths", false)
	}
}

// checkConstantScanBounds (R14.5): a scan over the template's node list or token list goes on
// to the end of the list.  A loop whose index walks a []Node or []Token and is also compared
// with a constant ("the tag is one of the first two nodes") makes where a construct stands
// matter: text or comments inserted in front of it move it past the bound.
func checkConstantScanBounds(w *World, r *Report, reach map[*ssa.Function]bool) {
	tokenT := w.named("Token")
	nodeT := w.named("Node")
	n, nLoops := 0, 0
	for _, fn := range w.pkgFuncs() {
		if !reach[fn] {
			continue
		}
		// loop indexes: integer phis that index a node/token slice (directly or +const)
		idxPhi := map[*ssa.Phi]ssa.Instruction{}
		instrsOf(fn, func(in ssa.Instruction) {
			var x, idx ssa.Value
			switch ia := in.(type) {
			case *ssa.IndexAddr:
				x, idx = ia.X, ia.Index
			case *ssa.Index:
				x, idx = ia.X, ia.Index
			default:
				return
			}
			sl, ok := deref(x.Type()).Underlying().(*types.Slice)
			if !ok || !(types.Identical(sl.Elem(), tokenT) || types.Identical(sl.Elem(), nodeT)) {
				return
			}
			for k := 0; k < 2; k++ {
				if bo, ok := idx.(*ssa.BinOp); ok && (bo.Op == token.ADD || bo.Op == token.SUB) {
					if _, isC := bo.Y.(*ssa.Const); isC {
						idx = bo.X
					}
				}
			}
			if ph, ok := idx.(*ssa.Phi); ok {
				// a loop variable: one of its edges is itself plus a constant
				for _, e := range ph.Edges {
					if bo, ok := e.(*ssa.BinOp); ok && bo.Op == token.ADD && bo.X == ssa.Value(ph) {
						if _, isC := bo.Y.(*ssa.Const); isC {
							if _, seen := idxPhi[ph]; !seen {
								idxPhi[ph] = in
							}
						}
					}
				}
			}
		})
		for ph, at := range idxPhi {
			nLoops++
			if ph.Referrers() == nil {
				continue
			}
			for _, ref := range *ph.Referrers() {
				bo, ok := ref.(*ssa.BinOp)
				if !ok {
					continue
				}
				switch bo.Op {
				case token.LSS, token.LEQ, token.GTR, token.GEQ:
				default:
					continue
				}
				other := bo.Y
				if other == ssa.Value(ph) {
					other = bo.X
				}
				c, isC := other.(*ssa.Const)
				if !isC || c.Value == nil || c.Value.Kind() != constant.Int {
					continue
				}
				k, _ := constant.Int64Val(c.Value)
				if k < 1 {
					continue
				}
				// the comparison must control a branch
				ctl := false
				if bo.Referrers() != nil {
					for _, r2 := range *bo.Referrers() {
						switch r2.(type) {
						case *ssa.If, *ssa.Phi:
							ctl = true
						}
					}
				}
				if !ctl {
					continue
				}
				n++
				r.bad("R14.5", ssaName(fn), "scan over the node/token list bounded by a constant", w.posOf(bo.Pos()), fmt.Sprintf("the index that walks the list (%s) is compared with the constant %d: only the first positions are looked at, so a construct is found or missed depending on how many text and comment pieces stand in front of it", w.posOf(at.Pos()), k))
			}
		}
	}
	r.Counts["index loops over node/token lists"] = nLoops
	if n == 0 {
		r.ok("R14.5", "(package)", "no scan over a node or token list is bounded by a constant", "-", fmt.Sprintf("%d index loops over []Node / []Token; none compares its index with a constant >= 1", nLoops), nLoops > 0)
	}
}

// checkSizeDecidedResults (R14.6): what a function hands back does not depend on a size class.
// In code on load, parse and render paths no Return that delivers template data (a string, a byte
// slice, tokens, nodes, a template) without an error is control dependent on a comparison of a
// size value — len/cap of data, a size parameter — with a constant >= 16.  Refusing an oversized
// input with an error is visible and allowed; silently answering something else above a
// threshold ("sources over 64 KiB are not retained") makes a template mean something else from
// one length on.
func checkSizeDecidedResults(w *World, r *Report, reach map[*ssa.Function]bool) {
	loadReach := w.reachableFrom(w.loaderRoots())
	isData := func(t types.Type) bool {
		switch u := t.Underlying().(type) {
		case *types.Basic:
			return u.Info()&types.IsString != 0
		case *types.Slice:
			return true
		case *types.Pointer:
			return isNamed(t, twigPath, "Template") || isNamed(t, twigPath, "CompiledTemplate")
		case *types.Interface:
			return isNamed(t, twigPath, "Node")
		}
		return false
	}
	n, bad := 0, 0
	for _, fn := range w.pkgFuncs() {
		if !reach[fn] && !loadReach[fn] {
			continue
		}
		res := fn.Signature.Results()
		hasData := false
		for i := 0; i < res.Len(); i++ {
			if isData(res.At(i).Type()) {
				hasData = true
			}
		}
		if !hasData {
			continue
		}
		ei := errResultIndex(fn.Signature)
		instrsOf(fn, func(in ssa.Instruction) {
			ret, ok := in.(*ssa.Return)
			if !ok {
				return
			}
			rr := retResults(ret)
			if ei >= 0 && ei < len(rr) && !isNilConst(rr[ei]) {
				return // an error return: refusing is allowed
			}
			for _, cond := range controllingConds(in) {
				var facts []condFact
				expandCond(cond, true, &facts, 0)
				for _, cf := range facts {
					bo, ok := cf.v.(*ssa.BinOp)
					if !ok {
						continue
					}
					switch bo.Op {
					case token.LSS, token.LEQ, token.GTR, token.GEQ:
					default:
						continue
					}
					var sz string
					var cst *ssa.Const
					if c, ok := bo.Y.(*ssa.Const); ok {
						if s, ok := sizeValue(bo.X, 0); ok {
							sz, cst = s, c
						}
					} else if c, ok := bo.X.(*ssa.Const); ok {
						if s, ok := sizeValue(bo.Y, 0); ok {
							sz, cst = s, c
						}
					}
					if cst == nil || cst.Value == nil || cst.Value.Kind() != constant.Int {
						continue
					}
					k, _ := constant.Int64Val(cst.Value)
					if k < 16 {
						continue
					}
					n++
					// both sides returning the same data value is harmless (a capacity decision)
					same := true
					instrsOf(fn, func(o ssa.Instruction) {
						if r2, ok := o.(*ssa.Return); ok && r2 != ret {
							rr2 := retResults(r2)
							if ei >= 0 && ei < len(rr2) && !isNilConst(rr2[ei]) {
								return
							}
							for i := range rr {
								if i < len(rr2) && i != ei && !sameValue(rr[i], rr2[i]) {
									same = false
								}
							}
						}
					})
					if same {
						return
					}
					bad++
					r.bad("R14.6", ssaName(fn), "result decided by a size class", w.posOf(ret.Pos()), fmt.Sprintf("which value this function returns (without an error) depends on %s compared with the constant %d: above and below that size the caller gets different data for the same template text, so a template changes its meaning at an absolute length", sz, k))
					return
				}
			}
		})
	}
	if bad == 0 {
		r.ok("R14.6", "(package)", "no data result is decided by a size class", "-", "no successful return of a data-returning function on load/parse/render paths is control dependent on a size-vs-constant comparison", false)
	}
	_ = n
}

// checkChainWalkBounds (R14.7, also an obligation of C12): a walk along a chain of links (ctx =
// ctx.parent, node = node.next) goes on until the chain ends.  A loop whose pointer variable is
// advanced to a field of itself and whose condition also compares a counter with a constant
// stops looking after a fixed number of links: a macro, variable or block is found or not
// depending on how deeply the call is nested.
func checkChainWalkBounds(w *World, r *Report, rule string) {
	n, bad := 0, 0
	for _, fn := range w.pkgFuncs() {
		instrsOf(fn, func(in ssa.Instruction) {
			ph, ok := in.(*ssa.Phi)
			if !ok {
				return
			}
			if _, isPtr := ph.Type().Underlying().(*types.Pointer); !isPtr {
				return
			}
			// an edge that is a load of a field of the phi itself
			link := ""
			for _, e := range ph.Edges {
				if u, ok := e.(*ssa.UnOp); ok && u.Op == token.MUL {
					if fa, ok := u.X.(*ssa.FieldAddr); ok && fa.X == ssa.Value(ph) {
						_, link = fieldOfAddr(fa)
					}
				}
			}
			if link == "" {
				return
			}
			n++
			// counters compared with constants in the conditions that keep the loop going: the
			// header block and the blocks of its short-circuit chain
			header := ph.Block()
			var offending *ssa.BinOp
			for _, b := range fn.Blocks {
				if !(b == header || (header.Dominates(b) && len(b.Preds) == 1 && b.Preds[0] == header)) {
					continue
				}
				v, _, ok := ifCond(b)
				if !ok {
					continue
				}
				var facts []condFact
				expandCond(v, true, &facts, 0)
				for _, cf := range facts {
					bo, ok := cf.v.(*ssa.BinOp)
					if !ok {
						continue
					}
					switch bo.Op {
					case token.LSS, token.LEQ, token.GTR, token.GEQ:
					default:
						continue
					}
					for _, pr := range [][2]ssa.Value{{bo.X, bo.Y}, {bo.Y, bo.X}} {
						cp, isPhi := pr[0].(*ssa.Phi)
						k, isC := intConst(pr[1])
						if isPhi && isC && k >= 2 && cp.Block() == header {
							if b2, ok := cp.Type().Underlying().(*types.Basic); ok && b2.Info()&types.IsInteger != 0 {
								offending = bo
							}
						}
					}
				}
			}
			construct := "walk along ." + link + " links is not bounded by a constant"
			if offending != nil {
				bad++
				r.bad(rule, ssaName(fn), construct, w.posOf(offending.Pos()), "the loop that follows the ."+link+" chain also stops when a counter reaches a constant: beyond that many links nothing is found any more, so the same name resolves or not depending on the nesting depth it is used at")
			} else {
				r.ok(rule, ssaName(fn), construct, w.posOf(ph.Pos()), "the walk ends only where the chain ends (or the item is found)", false)
			}
		})
	}
	r.Counts["walks along a chain of links"] = n
	_ = bad
}

// checkParseAlwaysParses — R14.8: every template goes through the one parser.  In Parser.Parse no
// return that can carry a nil error is reachable without a call of parseOuterTemplate (directly
// or in a helper that calls it): a shortcut for sources that "have nothing to evaluate" decides
// by a scan of the text which grammar applies — comments, escapes and whitespace control in such
// a source are then not seen by anybody.
func checkParseAlwaysParses(w *World, r *Report, rule string) {
	parse := w.ssaFunc(w.method("Parser", "Parse"))
	outer := w.ssaFunc(w.method("Parser", "parseOuterTemplate"))
	calls := map[*ssa.Function]bool{outer: true}
	for changed := true; changed; {
		changed = false
		for _, g := range w.pkgFuncs() {
			if calls[g] || g == parse {
				continue
			}
			instrsOf(g, func(in ssa.Instruction) {
				if c, ok := in.(ssa.CallInstruction); ok {
					if h := c.Common().StaticCallee(); h != nil && calls[h] && !calls[g] {
						calls[g] = true
						changed = true
					}
				}
			})
		}
	}
	gen := func(in ssa.Instruction) bool {
		c, ok := in.(ssa.CallInstruction)
		if !ok {
			return false
		}
		h := c.Common().StaticCallee()
		return h != nil && calls[h]
	}
	ei := errResultIndex(parse.Signature)
	n := 0
	bad := ""
	instrsOf(parse, func(in ssa.Instruction) {
		ret, ok := in.(*ssa.Return)
		if !ok || bad != "" {
			return
		}
		res := retResults(ret)
		if ei >= 0 && ei < len(res) && errorSurelyNonNil(res[ei], ret.Block()) {
			return
		}
		n++
		if found, path := existsPathAvoiding(parse, in, gen, nil); found {
			bad = w.posOf(ret.Pos()) + " (path " + strings.Join(path, " → ") + ")"
		}
	})
	construct := "every successful return of Parse lies behind parseOuterTemplate"
	if bad == "" {
		r.ok(rule, ssaName(parse), construct, w.posOf(parse.Pos()), fmt.Sprintf("%d return(s) that can succeed, each behind the parser", n), true)
	} else {
		r.bad(rule, ssaName(parse), construct, w.posOf(parse.Pos()), "Parse can succeed at "+bad+" without having run the parser: what a scan of the source text decides there (no tags, short, only text) selects a second, simpler grammar in which comments are printed, escapes kept and dashes ignored")
	}
	r.floor("returns of Parse that can succeed", n, 1)
}

// checkParseTreesNotMemoised — R14.9: a parsed tree belongs to the template it was parsed for.
// The result of Parser.Parse never becomes the value of a map entry: a table of trees keyed by
// something computed from the source (its length, a hash of parts of it) makes two different
// sources share one tree whenever the key does not tell them apart — which, for a key of bounded
// size, is a matter of how long the templates are.
func checkParseTreesNotMemoised(w *World, r *Report) {
	parse := w.method("Parser", "Parse")
	n := 0
	for _, fn := range w.pkgFuncs() {
		instrsOf(fn, func(in ssa.Instruction) {
			c, ok := in.(*ssa.Call)
			if !ok || calleeFunc(c) != parse {
				return
			}
			n++
			bad := ""
			seen := map[ssa.Value]bool{}
			var walk func(v ssa.Value)
			walk = func(v ssa.Value) {
				if seen[v] || v.Referrers() == nil || bad != "" {
					return
				}
				seen[v] = true
				for _, ref := range *v.Referrers() {
					switch x := ref.(type) {
					case *ssa.Extract:
						if x.Index == 0 {
							walk(x)
						}
					case *ssa.Phi:
						walk(x)
					case *ssa.MakeInterface:
						walk(x)
					case *ssa.ChangeInterface:
						walk(x)
					case *ssa.TypeAssert:
						walk(x)
					case *ssa.MapUpdate:
						if x.Value == v {
							bad = w.posOf(x.Pos())
						}
					case *ssa.Store:
						if x.Val == v {
							if al, ok := x.Addr.(*ssa.Alloc); ok {
								for _, r2 := range *al.Referrers() {
									if ld, ok := r2.(*ssa.UnOp); ok {
										walk(ld)
									}
								}
							}
						}
					}
				}
			}
			walk(c)
			construct := "the parsed tree is not entered into a table"
			if bad != "" {
				r.bad("R14.9", ssaName(fn), construct, w.posOf(in.Pos()), "the tree returned by Parse is stored as a map entry at "+bad+": sources that the table's key does not distinguish (same length, same hashed parts) are rendered from one tree — whether that happens depends on the templates' length and on where they differ")
			} else {
				r.ok("R14.9", ssaName(fn), construct, w.posOf(in.Pos()), "flows into a Template / a return value only", true)
			}
		})
	}
	r.floor("calls of Parser.Parse", n, 2)
}

// checkSizesNotNarrowed (R14.11): a length, a position or an index into the token or node
// sequences is never converted to an integer type narrower than 32 bits.  A table of token
// positions kept as uint16 reads a template the same way only while it has fewer than 65 536
// tokens; above that the position wraps and a tag far into a long template is handled as if it
// stood somewhere else.  Conversions of single bytes and of values masked or reduced below the
// target's range first are not sizes.
func checkSizesNotNarrowed(w *World, r *Report) {
	n := 0
	for _, fn := range w.pkgFuncs() {
		instrsOf(fn, func(in ssa.Instruction) {
			cv, ok := in.(*ssa.Convert)
			if !ok {
				return
			}
			to, ok := cv.Type().Underlying().(*types.Basic)
			if !ok || to.Info()&types.IsInteger == 0 {
				return
			}
			from, ok := cv.X.Type().Underlying().(*types.Basic)
			if !ok || from.Info()&types.IsInteger == 0 {
				return
			}
			bits := func(b *types.Basic) int {
				switch b.Kind() {
				case types.Int8, types.Uint8:
					return 8
				case types.Int16, types.Uint16:
					return 16
				case types.Int32, types.Uint32:
					return 32
				}
				return 64
			}
			if bits(to) >= 32 || bits(from) <= bits(to) {
				return
			}
			what, isSize := sizeValue(cv.X, 0)
			if !isSize {
				what, isSize = positionValue(cv.X, 0)
			}
			if !isSize {
				return
			}
			n++
			construct := fmt.Sprintf("%s converted to %s", what, to.Name())
			if reducedBelow(cv.X, bits(to)) {
				r.ok("R14.11", ssaName(fn), construct, w.posOf(cv.Pos()), "the value is masked or reduced below the target's range before the conversion", true)
				return
			}
			r.bad("R14.11", ssaName(fn), construct, w.posOf(cv.Pos()), fmt.Sprintf("a length or position is kept in %d bits: it wraps once the template is long enough, and a tag behind that point is read as if it stood elsewhere", bits(to)))
		})
	}
	r.Counts["narrowing conversions of sizes or positions"] = n
}

// positionValue: an integer that names a place in the source, the token buffer or a node list —
// a loop counter compared with a length, or a field/parameter called pos, position, offset, index, line, …
func positionValue(v ssa.Value, depth int) (string, bool) {
	if depth > 4 {
		return "", false
	}
	named := func(s string) bool {
		s = strings.ToLower(s)
		for _, k := range []string{"pos", "offset", "index", "idx", "line", "start", "end", "count", "cursor"} {
			if strings.Contains(s, k) {
				return true
			}
		}
		return false
	}
	switch x := v.(type) {
	case *ssa.Parameter:
		if named(x.Name()) {
			return x.Name(), true
		}
	case *ssa.UnOp:
		if x.Op == token.MUL {
			if fa, ok := x.X.(*ssa.FieldAddr); ok {
				tn, f := fieldOfAddr(fa)
				if named(f) {
					return tn + "." + f, true
				}
			}
		}
	case *ssa.Phi:
		// loop counter: one edge is the phi plus a constant, and the phi is compared with a length
		for _, e := range x.Edges {
			if bo, ok := e.(*ssa.BinOp); ok && bo.Op == token.ADD && bo.X == x {
				if x.Referrers() != nil {
					for _, ref := range *x.Referrers() {
						if cmp, ok := ref.(*ssa.BinOp); ok {
							other := cmp.Y
							if other == ssa.Value(x) {
								other = cmp.X
							}
							if s, ok := sizeValue(other, 0); ok {
								return "counter below " + s, true
							}
						}
					}
				}
			}
		}
		for _, e := range x.Edges {
			if s, ok := positionValue(e, depth+1); ok {
				return s, true
			}
		}
	case *ssa.BinOp:
		switch x.Op {
		case token.ADD, token.SUB:
			if s, ok := positionValue(x.X, depth+1); ok {
				return s + " " + x.Op.String() + " …", true
			}
			if s, ok := positionValue(x.Y, depth+1); ok {
				return "… " + x.Op.String() + " " + s, true
			}
		}
	case *ssa.Convert:
		return positionValue(x.X, depth+1)
	}
	return "", false
}

// reducedBelow: v is x & c, x % c or x >> k with a result that fits in the given number of bits
func reducedBelow(v ssa.Value, bits int) bool {
	bo, ok := v.(*ssa.BinOp)
	if !ok {
		return false
	}
	c, ok := bo.Y.(*ssa.Const)
	if !ok || c.Value == nil || c.Value.Kind() != constant.Int {
		return false
	}
	k, _ := constant.Int64Val(c.Value)
	limit := int64(1) << uint(bits)
	switch bo.Op {
	case token.AND:
		return k >= 0 && k < limit
	case token.REM:
		return k > 0 && k <= limit
	case token.SHR:
		return k >= int64(64-bits)
	}
	return false
}

// checkCountersBalanced — R14.14: a depth counter is given back on every successful way out.  In a
// function that increments a field of a shared object (x.f = x.f + 1) and also decrements it, every
// path from the increment to a return that can carry a nil error passes a decrement (directly or
// deferred).  A counter that leaks one unit on some successful path ("the ternary arm returns
// early") fills up with the number of such constructs in the template: from some length on, every
// later expression is refused — or accepted differently — although nothing about it changed.
func checkCountersBalanced(w *World, r *Report) {
	n := 0
	for _, fn := range w.pkgFuncs() {
		type cnt struct {
			inc []*ssa.Store
			dec []*ssa.Store
		}
		counters := map[string]*cnt{}
		deferredDec := map[string]bool{}
		classify := func(st *ssa.Store) (string, int) {
			fa, ok := st.Addr.(*ssa.FieldAddr)
			if !ok {
				return "", 0
			}
			bo, ok := st.Val.(*ssa.BinOp)
			if !ok || (bo.Op != token.ADD && bo.Op != token.SUB) {
				return "", 0
			}
			c, ok := bo.Y.(*ssa.Const)
			if !ok || c.Value == nil || c.Value.Kind() != constant.Int {
				return "", 0
			}
			u, ok := bo.X.(*ssa.UnOp)
			if !ok || u.Op != token.MUL {
				return "", 0
			}
			fa2, ok := u.X.(*ssa.FieldAddr)
			if !ok || fa2.Field != fa.Field || !sameValue(origin(fa2.X), origin(fa.X)) {
				return "", 0
			}
			if _, local := origin(fa.X).(*ssa.Alloc); local {
				return "", 0
			}
			t, f := fieldOfAddr(fa)
			k, _ := constant.Int64Val(c.Value)
			if k != 1 {
				return "", 0
			}
			if bo.Op == token.ADD {
				return t + "." + f, +1
			}
			return t + "." + f, -1
		}
		instrsOf(fn, func(in ssa.Instruction) {
			st, ok := in.(*ssa.Store)
			if !ok {
				return
			}
			name, dir := classify(st)
			if name == "" {
				return
			}
			if counters[name] == nil {
				counters[name] = &cnt{}
			}
			if dir > 0 {
				counters[name].inc = append(counters[name].inc, st)
			} else {
				counters[name].dec = append(counters[name].dec, st)
			}
		})
		// decrements inside deferred closures
		for _, a := range fn.AnonFuncs {
			instrsOf(a, func(in ssa.Instruction) {
				if st, ok := in.(*ssa.Store); ok {
					if fa, ok := st.Addr.(*ssa.FieldAddr); ok {
						if bo, ok := st.Val.(*ssa.BinOp); ok && bo.Op == token.SUB {
							t, f := fieldOfAddr(fa)
							deferredDec[t+"."+f] = true
						}
					}
				}
			})
		}
		ei := errResultIndex(fn.Signature)
		for name, c := range counters {
			if len(c.inc) == 0 || (len(c.dec) == 0 && !deferredDec[name]) {
				continue // a plain counter (statistics, positions), not a bracket
			}
			n++
			construct := name + " is decremented on every successful way out"
			if deferredDec[name] {
				r.ok("R14.14", ssaName(fn), construct, w.posOf(c.inc[0].Pos()), "decremented in a deferred function", true)
				continue
			}
			isDec := func(x ssa.Instruction) bool {
				for _, d := range c.dec {
					if x == ssa.Instruction(d) {
						return true
					}
				}
				return false
			}
			bad := ""
			for _, inc := range c.inc {
				instrsOf(fn, func(in ssa.Instruction) {
					ret, ok := in.(*ssa.Return)
					if !ok || bad != "" {
						return
					}
					if ei >= 0 {
						res := retResults(ret)
						if ei < len(res) && errorSurelyNonNil(res[ei], ret.Block()) {
							return // a failed parse / render is abandoned
						}
					}
					if found, path := existsPathFromAvoiding(fn, inc, in, isDec, nil); found {
						bad = w.posOf(ret.Pos()) + " (path " + strings.Join(path, " → ") + ")"
					}
				})
			}
			if bad == "" {
				r.ok("R14.14", ssaName(fn), construct, w.posOf(c.inc[0].Pos()), "every path from the increment to a successful return passes a decrement", true)
			} else {
				r.bad("R14.14", ssaName(fn), construct, w.posOf(c.inc[0].Pos()), "the function can return successfully at "+bad+" with the counter still raised: each such construct in a template uses up one unit for good, so from a certain number of them on every later construct is treated as too deeply nested — how a tag is read depends on how much template precedes it")
			}
		}
	}
	r.Counts["bracketing counters on shared objects"] = n
}
