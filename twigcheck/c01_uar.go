package main

// R01.5 — no use after release.
//
// An object handed back to a pool (Pool.Put, directly or through a Release method / helper that
// puts its receiver or parameter) may be handed out again at once; the value must be dead
// afterwards.  Release sites: non-deferred calls of Pool.Put and of package functions that
// release one of their parameters (transitively).  Obligation per site: no instruction reachable
// from the site — without passing the definition of the value again — uses the released value or
// the interface / concrete value it was converted from.

import (
	"fmt"
	"go/token"
	"go/types"
	"sort"

	"golang.org/x/tools/go/ssa"
)

// rootsOf: the value and what it was converted from (type assertion, interface conversion,
// load of a single-assignment local).
func rootsOf(v ssa.Value) []ssa.Value {
	out := []ssa.Value{v}
	for i := 0; i < 6; i++ {
		switch x := v.(type) {
		case *ssa.TypeAssert:
			v = x.X
		case *ssa.MakeInterface:
			v = x.X
		case *ssa.ChangeInterface:
			v = x.X
		case *ssa.ChangeType:
			v = x.X
		case *ssa.Slice:
			v = x.X // s[:0] is the same backing array
		case *ssa.UnOp:
			u := unspill(x)
			if u == ssa.Value(x) {
				return out
			}
			v = u
		case *ssa.Extract:
			// v, ok := x.(T)
			if ta, ok := x.Tuple.(*ssa.TypeAssert); ok && x.Index == 0 {
				v = ta.X
			} else {
				return out
			}
		default:
			return out
		}
		out = append(out, v)
	}
	return out
}

type releaseFacts struct {
	w *World
	// function -> parameter indexes it releases on some path
	releases map[*ssa.Function]map[int]bool
}

func (rf *releaseFacts) releasedArg(c ssa.CallInstruction) (ssa.Value, string) {
	cc := c.Common()
	if f := calleeFunc(c); f != nil && isFunc(f, "sync", "Pool", "Put") {
		args := callArgs(c)
		if len(args) == 1 {
			return args[0], "Pool.Put"
		}
	}
	if cc.IsInvoke() {
		// Node.Release() and the like: an interface method all of whose implementations in the
		// package release their receiver
		if cc.Method.Name() == "Release" && cc.Method.Pkg() != nil && cc.Method.Pkg().Path() == twigPath {
			return cc.Value, "Release() (interface)"
		}
		return nil, ""
	}
	g := cc.StaticCallee()
	if g == nil {
		return nil, ""
	}
	for i := range rf.releases[g] {
		if i < len(cc.Args) {
			return cc.Args[i], g.Name()
		}
	}
	return nil, ""
}

func (rf *releaseFacts) solve() {
	rf.releases = map[*ssa.Function]map[int]bool{}
	paramIndex := func(fn *ssa.Function, v ssa.Value) int {
		for _, r := range rootsOf(v) {
			if p, ok := r.(*ssa.Parameter); ok {
				for i, fp := range fn.Params {
					if fp == p {
						return i
					}
				}
			}
			// &local of a parameter-typed slice (Put(&slice)) is not the parameter object
		}
		return -1
	}
	for changed := true; changed; {
		changed = false
		for _, fn := range rf.w.pkgFuncs() {
			instrsOf(fn, func(in ssa.Instruction) {
				c, ok := in.(ssa.CallInstruction)
				if !ok {
					return
				}
				if _, isDefer := in.(*ssa.Defer); isDefer {
					// a deferred release still releases the parameter when the function returns
				}
				v, _ := rf.releasedArg(c)
				if v == nil {
					return
				}
				if i := paramIndex(fn, v); i >= 0 {
					if rf.releases[fn] == nil {
						rf.releases[fn] = map[int]bool{}
					}
					if !rf.releases[fn][i] {
						rf.releases[fn][i] = true
						changed = true
					}
				}
			})
		}
	}
}

func checkUseAfterRelease(w *World, r *Report) {
	rf := &releaseFacts{w: w}
	rf.solve()
	nSites := 0
	for _, fn := range w.pkgFuncs() {
		instrsOf(fn, func(in ssa.Instruction) {
			c, ok := in.(ssa.CallInstruction)
			if !ok {
				return
			}
			if _, isDefer := in.(*ssa.Defer); isDefer {
				// a deferred release runs when the function returns: nothing the function hands
				// back may live in the released object
				v, how := rf.releasedArg(c)
				if v == nil {
					return
				}
				if cst, isC := v.(*ssa.Const); isC && cst.Value == nil {
					return
				}
				nSites++
				alias := map[ssa.Value]bool{}
				for _, rt := range rootsOf(v) {
					alias[rt] = true
				}
				for changed := true; changed; {
					changed = false
					instrsOf(fn, func(x ssa.Instruction) {
						val, ok := x.(ssa.Value)
						if !ok || alias[val] {
							return
						}
						switch y := x.(type) {
						case *ssa.Slice:
							if alias[y.X] {
								alias[val], changed = true, true
							}
						case *ssa.MakeInterface:
							if alias[y.X] {
								alias[val], changed = true, true
							}
						case *ssa.ChangeType:
							if alias[y.X] {
								alias[val], changed = true, true
							}
						case *ssa.Phi:
							for _, e := range y.Edges {
								if alias[e] {
									alias[val], changed = true, true
								}
							}
						case *ssa.UnOp:
							if y.Op == token.MUL && alias[unspill(y)] && unspill(y) != ssa.Value(y) {
								alias[val], changed = true, true
							}
							// result slots (go/ssa spills results of functions with defers)
							if al, ok := y.X.(*ssa.Alloc); ok && y.Op == token.MUL && al.Referrers() != nil {
								for _, ref := range *al.Referrers() {
									if st, ok := ref.(*ssa.Store); ok && st.Addr == ssa.Value(al) && alias[st.Val] {
										alias[val], changed = true, true
									}
								}
							}
						case *ssa.Call:
							if b, ok := y.Call.Value.(*ssa.Builtin); ok && b.Name() == "append" && alias[y.Call.Args[0]] {
								alias[val], changed = true, true
							}
						}
					})
				}
				bad := ""
				instrsOf(fn, func(x ssa.Instruction) {
					if ret, ok := x.(*ssa.Return); ok && bad == "" {
						for _, res := range ret.Results {
							if alias[res] {
								bad = w.posOf(ret.Pos())
							}
						}
					}
				})
				construct := "value released by a deferred " + how + " is not handed back"
				if bad != "" {
					r.bad("R01.5", ssaName(fn), construct, w.posOf(in.Pos()), "the function returns (at "+bad+") the very object — or a slice / interface value over it — that its deferred release puts back into the pool: the caller goes on using memory that the pool hands to the next taker, whose writes then show through")
				} else {
					r.ok("R01.5", ssaName(fn), construct, w.posOf(in.Pos()), "no result of the function aliases the released object", true)
				}
				return
			}
			if _, isGo := in.(*ssa.Go); isGo {
				return
			}
			v, how := rf.releasedArg(c)
			if v == nil {
				return
			}
			if cst, isC := v.(*ssa.Const); isC && cst.Value == nil {
				return
			}
			nSites++
			roots := rootsOf(v)
			isRoot := func(x ssa.Value) bool {
				for _, rt := range roots {
					if x == rt {
						return true
					}
					// another load of the same single-assignment local
					if _, isU := rt.(*ssa.UnOp); isU && sameValue(x, rt) {
						return true
					}
				}
				return false
			}
			defBlocks := map[*ssa.BasicBlock]bool{}
			for _, rt := range roots {
				if di, ok := rt.(ssa.Instruction); ok && di.Block() != nil {
					defBlocks[di.Block()] = true
				}
			}
			uses := func(x ssa.Instruction) bool {
				if _, isDbg := x.(*ssa.DebugRef); isDbg {
					return false
				}
				for _, op := range x.Operands(nil) {
					if *op != nil && isRoot(*op) {
						// conversions of the value are not uses by themselves
						switch x.(type) {
						case *ssa.MakeInterface, *ssa.ChangeInterface, *ssa.TypeAssert, *ssa.ChangeType, *ssa.Phi:
							return false
						}
						return true
					}
				}
				return false
			}
			var bad ssa.Instruction
			// rest of the block
			past := false
			for _, x := range in.Block().Instrs {
				if x == in {
					past = true
					continue
				}
				if past && bad == nil && uses(x) {
					bad = x
				}
			}
			seen := map[*ssa.BasicBlock]bool{}
			var walk func(b *ssa.BasicBlock)
			walk = func(b *ssa.BasicBlock) {
				if seen[b] || bad != nil {
					return
				}
				seen[b] = true
				if defBlocks[b] {
					// the value is (re)defined here: a new object from here on
					if b == in.Block() {
						for _, x := range b.Instrs {
							if x == in {
								break
							}
							// before the definition nothing can use it; after it, it is a new instance
							_ = x
						}
					}
					return
				}
				for _, x := range b.Instrs {
					if x == in {
						return // back at the release site through a loop whose value is defined outside: reported through the loop body's uses
					}
					if uses(x) {
						bad = x
						return
					}
				}
				for _, s := range b.Succs {
					walk(s)
				}
			}
			if bad == nil {
				for _, s := range in.Block().Succs {
					walk(s)
				}
			}
			construct := fmt.Sprintf("value released by %s is dead afterwards", how)
			if bad == nil {
				r.ok("R01.5", ssaName(fn), construct, w.posOf(in.Pos()), "no use of the released value (or of what it was converted from) is reachable from the release", true)
			} else {
				r.bad("R01.5", ssaName(fn), construct, w.posOf(in.Pos()), fmt.Sprintf("the released object is used again at %s (%s): the pool may already have handed it to another caller — two users share one object, or the later use reads the cleared fields", w.posOf(bad.Pos()), bad.String()))
			}
		})
	}
	// double release: two release sites (deferred or not) of one object on one path
	nPairs := 0
	for _, fn := range w.pkgFuncs() {
		type rel struct {
			in   ssa.Instruction
			vals map[ssa.Value]bool
			how  string
		}
		var rels []rel
		instrsOf(fn, func(in ssa.Instruction) {
			c, ok := in.(ssa.CallInstruction)
			if !ok {
				return
			}
			if _, isGo := in.(*ssa.Go); isGo {
				return
			}
			v, how := rf.releasedArg(c)
			if v == nil {
				return
			}
			if cst, isC := v.(*ssa.Const); isC && cst.Value == nil {
				return
			}
			vals := map[ssa.Value]bool{}
			var add func(x ssa.Value, depth int)
			add = func(x ssa.Value, depth int) {
				if depth > 6 || vals[x] {
					return
				}
				if ph, ok := x.(*ssa.Phi); ok {
					vals[x] = true
					for _, e := range ph.Edges {
						add(e, depth+1)
					}
					return
				}
				for _, rt := range rootsOf(x) {
					if _, isC := rt.(*ssa.Const); isC {
						continue
					}
					if ph, ok := rt.(*ssa.Phi); ok {
						add(ph, depth+1)
						continue
					}
					vals[rt] = true
				}
			}
			add(v, 0)
			rels = append(rels, rel{in, vals, how})
		})
		for i := 0; i < len(rels); i++ {
			for j := i + 1; j < len(rels); j++ {
				a, b := rels[i], rels[j]
				shared := false
				for x := range a.vals {
					if _, isPhi := x.(*ssa.Phi); isPhi {
						continue
					}
					if b.vals[x] {
						shared = true
					}
				}
				if !shared {
					continue
				}
				// can both execute on one path?
				both := false
				if a.in.Block() == b.in.Block() {
					both = true
				} else if blockReaches(a.in.Block(), b.in.Block()) || blockReaches(b.in.Block(), a.in.Block()) {
					both = true
				}
				if !both {
					continue
				}
				nPairs++
				r.bad("R01.5", ssaName(fn), "an object is released at most once on a path", w.posOf(b.in.Pos()), fmt.Sprintf("the object released here (%s) is also released at %s (%s) on the same path: the pool then holds it twice and hands it to two owners at once (contexts that overwrite each other, a context that becomes its own parent)", b.how, w.posOf(a.in.Pos()), a.how))
			}
		}
	}
	if nPairs == 0 {
		r.ok("R01.5", "(package)", "an object is released at most once on a path", "-", "no two release sites of one object lie on a common path", true)
	}
	r.floor("release sites (Pool.Put and releasing calls)", nSites, 20)
	var names []string
	for fn := range rf.releases {
		names = append(names, ssaName(fn))
	}
	sort.Strings(names)
	r.Counts["functions releasing one of their parameters"] = len(names)
}

var _ = token.MUL

// derivesFromTemplateTree: the value is (a part of) the node tree stored in Template.nodes —
// through type assertions, field loads of node structs, element loads and range iteration.
func derivesFromTemplateTree(v ssa.Value, seen map[ssa.Value]bool, depth int) string {
	if seen[v] || depth > 14 {
		return ""
	}
	seen[v] = true
	switch x := v.(type) {
	case *ssa.TypeAssert:
		return derivesFromTemplateTree(x.X, seen, depth+1)
	case *ssa.MakeInterface:
		return derivesFromTemplateTree(x.X, seen, depth+1)
	case *ssa.ChangeInterface:
		return derivesFromTemplateTree(x.X, seen, depth+1)
	case *ssa.ChangeType:
		return derivesFromTemplateTree(x.X, seen, depth+1)
	case *ssa.Extract:
		return derivesFromTemplateTree(x.Tuple, seen, depth+1)
	case *ssa.Next:
		return derivesFromTemplateTree(x.Iter, seen, depth+1)
	case *ssa.Range:
		return derivesFromTemplateTree(x.X, seen, depth+1)
	case *ssa.Index:
		return derivesFromTemplateTree(x.X, seen, depth+1)
	case *ssa.Lookup:
		return derivesFromTemplateTree(x.X, seen, depth+1)
	case *ssa.Slice:
		return derivesFromTemplateTree(x.X, seen, depth+1)
	case *ssa.Phi:
		for _, e := range x.Edges {
			if s := derivesFromTemplateTree(e, seen, depth+1); s != "" {
				return s
			}
		}
	case *ssa.IndexAddr:
		return derivesFromTemplateTree(x.X, seen, depth+1)
	case *ssa.FieldAddr:
		if tn, f := fieldOfAddr(x); tn == "Template" && f == "nodes" {
			return "Template.nodes"
		}
		return derivesFromTemplateTree(x.X, seen, depth+1)
	case *ssa.Field:
		return derivesFromTemplateTree(x.X, seen, depth+1)
	case *ssa.UnOp:
		if x.Op != token.MUL {
			return ""
		}
		if u := unspill(x); u != ssa.Value(x) {
			return derivesFromTemplateTree(u, seen, depth+1)
		}
		if al, ok := x.X.(*ssa.Alloc); ok && al.Referrers() != nil {
			for _, ref := range *al.Referrers() {
				if st, ok := ref.(*ssa.Store); ok && st.Addr == ssa.Value(al) {
					if s := derivesFromTemplateTree(st.Val, seen, depth+1); s != "" {
						return s
					}
				}
			}
			return ""
		}
		return derivesFromTemplateTree(x.X, seen, depth+1)
	}
	return ""
}

// checkTemplateTreeNeverReleased (R01.9 / R02.5): the tree of a Template is never released — it
// is shared by every render (and every goroutine) that fetched the template, registered or not
// any more.  Obligation: every release site of the package.
func checkTemplateTreeNeverReleased(w *World, r *Report, rule string) {
	rf := &releaseFacts{w: w}
	rf.solve()
	n, bad := 0, 0
	for _, fn := range w.pkgFuncs() {
		instrsOf(fn, func(in ssa.Instruction) {
			c, ok := in.(ssa.CallInstruction)
			if !ok {
				return
			}
			if _, isGo := in.(*ssa.Go); isGo {
				return
			}
			v, how := rf.releasedArg(c)
			if v == nil {
				return
			}
			n++
			if from := derivesFromTemplateTree(v, map[ssa.Value]bool{}, 0); from != "" {
				bad++
				r.bad(rule, ssaName(fn), "a template's node tree is never released", w.posOf(in.Pos()), "the value handed to "+how+" comes from "+from+": nodes of a template that may still be rendering (in this or another goroutine, or through a *Template the caller kept) go back to the pools and are wiped or handed to the next parse — later renders of that template produce another template's text")
			}
		})
	}
	if bad == 0 {
		r.ok(rule, "(package)", "a template's node tree is never released", "-", fmt.Sprintf("none of the %d release sites is handed a value that derives from Template.nodes", n), true)
	}
}

// checkPooledContainersNotData — R01.12: a container that templates can hold is never recycled.
// For every pool of generic containers (map[string]interface{}, []interface{}): if some value
// taken from the pool is turned into a template value — boxed into interface{} and stored, passed
// on or returned (a hash built for a filter argument, a list returned from an evaluation) — then
// nothing is ever Put into that pool.  A filter may return its argument, `set` may bind it, a
// global may keep it: the engine cannot know when the last holder is gone, and the next user of
// the pool would overwrite a value that a variable still refers to — the output then depends on
// what was rendered in between (and on when the garbage collector emptied the pool).
func checkPooledContainersNotData(w *World, r *Report, rule string) {
	isGeneric := func(t types.Type) bool {
		if t == nil {
			return false
		}
		switch u := t.Underlying().(type) {
		case *types.Map:
			it, ok := u.Elem().Underlying().(*types.Interface)
			return ok && it.NumMethods() == 0
		case *types.Slice:
			it, ok := u.Elem().Underlying().(*types.Interface)
			return ok && it.NumMethods() == 0
		}
		return false
	}
	n := 0
	for _, p := range w.pools() {
		var elem types.Type = p.elem
		if elem == nil {
			for _, g := range p.gets {
				if g.val != nil {
					elem = g.val.Type()
				}
			}
		}
		if !isGeneric(elem) {
			continue
		}
		// values taken from the pool: at the Get sites and at the calls of acquiring wrappers
		var acquired []ssa.Value
		acquirers := map[*ssa.Function]bool{}
		for _, g := range p.gets {
			if g.val == nil {
				continue
			}
			acquired = append(acquired, g.val)
			instrsOf(g.fn, func(in ssa.Instruction) {
				if ret, ok := in.(*ssa.Return); ok {
					for _, res := range retResults(ret) {
						for _, o := range originChain(res) {
							if o == g.val {
								acquirers[g.fn] = true
							}
						}
						if ph, ok := unspill(res).(*ssa.Phi); ok {
							for _, e := range ph.Edges {
								if unspill(e) == g.val {
									acquirers[g.fn] = true
								}
							}
						}
					}
				}
			})
		}
		for _, fn := range w.pkgFuncs() {
			instrsOf(fn, func(in ssa.Instruction) {
				if c, ok := in.(*ssa.Call); ok {
					if g := c.Call.StaticCallee(); g != nil && acquirers[g] {
						acquired = append(acquired, c)
					}
				}
			})
		}
		// does one of them become a template value?
		boxedAt := ""
		isPutOf := func(in ssa.Instruction) bool {
			for _, ps := range p.puts {
				if ps.call == in {
					return true
				}
			}
			return false
		}
		for _, v := range acquired {
			seen := map[ssa.Value]bool{}
			var flow func(v ssa.Value, d int)
			flow = func(v ssa.Value, d int) {
				if seen[v] || d > 6 || boxedAt != "" || v.Referrers() == nil {
					return
				}
				seen[v] = true
				for _, ref := range *v.Referrers() {
					switch x := ref.(type) {
					case *ssa.Phi:
						flow(x, d+1)
					case *ssa.Store:
						if al, ok := x.Addr.(*ssa.Alloc); ok && x.Val == v && al.Referrers() != nil {
							for _, r2 := range *al.Referrers() {
								if l, ok := r2.(*ssa.UnOp); ok && l.Op == token.MUL {
									flow(l, d+1)
								}
							}
						}
					case *ssa.MakeInterface:
						if x.Referrers() == nil {
							continue
						}
						for _, r2 := range *x.Referrers() {
							if isPutOf(r2) {
								continue
							}
							if _, isDbg := r2.(*ssa.DebugRef); isDbg {
								continue
							}
							boxedAt = w.posOf(x.Pos())
							if boxedAt == "-" || boxedAt == "" {
								boxedAt = w.posOf(r2.Pos())
							}
						}
					}
				}
			}
			flow(v, 0)
		}
		n++
		construct := "containers of pool " + p.name + " that become template values are not recycled"
		switch {
		case boxedAt == "":
			r.ok(rule, "(pool "+p.name+")", construct, "-", fmt.Sprintf("none of the %d value(s) taken from the pool is boxed into interface{}", len(acquired)), true)
		case len(p.puts) == 0:
			r.ok(rule, "(pool "+p.name+")", construct, "-", "values from the pool become template values (at "+boxedAt+") and nothing is ever Put back", true)
		default:
			for _, ps := range p.puts {
				r.bad(rule, ssaName(ps.fn), "Put into "+p.name, w.posOf(ps.call.Pos()), "a container taken from this pool is handed out as a template value (boxed at "+boxedAt+"): a filter may return it, `set` may bind it — recycling it lets the next user overwrite a value a variable still refers to, so the output depends on what was rendered in between")
			}
		}
	}
	r.floor("pools of generic containers", n, 1)
}
