package main

// C10 — template inheritance is block substitution along the extends chain.
//
// R10.1 presence of a block definition is tested by membership, not by emptiness: a lookup in a
//       map whose values are block bodies ([]Node) that decides between definitions must use
//       the comma-ok result alone; len(..) / nil comparisons of the looked-up body in the
//       deciding condition are violations (an empty body is a legitimate definition).
// R10.2 hand-over completeness: ExtendsNode.Render hands BOTH block maps of the child context to
//       the parent context before rendering the parent.

import (
	"fmt"
	"go/ast"
	"go/constant"
	"go/token"
	"go/types"
	"strings"

	"golang.org/x/tools/go/ssa"
)

func init() { register("C10", checkC10) }

func (w *World) isBlockMap(t types.Type) bool {
	if t == nil {
		return false
	}
	m, ok := t.Underlying().(*types.Map)
	if !ok {
		return false
	}
	sl, ok := m.Elem().Underlying().(*types.Slice)
	return ok && isNamed(sl.Elem(), twigPath, "Node")
}

func checkC10(w *World, r *Report) {
	r.Explanation = "Decides one necessary condition of block substitution that is visible in the shape of the code, for every template set: (R10.1) wherever the renderer decides which definition of a block to use by looking it up in a name → body map, the decision is taken on membership (comma-ok) and never on the emptiness or nil-ness of the body, so an override with an empty body is honoured like any other; (R10.2) ExtendsNode.Render copies both the blocks and the parentBlocks map of the child context into the parent's context on every path before the parent renders. (R10.3) parent() renders inherited bodies with the caller's effective block table; (R10.4) a block's own body is rendered only after the effective block table was consulted, in every kind of render; (R10.5) ExtendsNode reaches a successful return only through Engine.Load. Not decided: which definition wins along chains of three or more templates, parent() chains, nested blocks (substitution semantics over data, not a code shape)."
	r.Explanation += " Rules added in later rounds: (R10.6) parent() renders the inherited body now; (R10.7) the hand-over of the writer to the extends node shares no path with any other use of the writer. (R10.8) structural nodes render their bodies in the context they were given; (R10.9) a root node's block registration is not held back by presence alone. (R10.10) the search for the extends tag visits every node."
	r.Explanation += " Round 9: (R10.11) re-entrant functions do not bracket nested work with constants in shared state; (R10.12) the parser does not filter node lists by what the nodes are."
	r.Explanation += " Round 10: (R10.13) the print tag writes the whole converted value."
	r.Explanation += " Round 11: (R10.14) Parse returns a RootNode."
	r.Explanation += " Round 12: (R10.15) templates are not judged at load time by what their tree contains."
	r.RuleText = "obligation = one lookup in a block-body map whose result reaches a branch condition (R10.1), one map hand-over (R10.2); non-trivial = all"
	r.Trusted = []string{"go/types resolution of map element types"}

	reach := w.renderOnlyReachable()
	n := 0
	for _, fd := range w.sortedDecls() {
		obj := w.Info.Defs[fd.Name].(*types.Func)
		sf := w.ssaFunc(obj)
		in := reach[sf]
		for _, a := range sf.AnonFuncs {
			in = in || reach[a]
		}
		if !in {
			continue
		}
		fname := w.declName(fd)
		// variables bound to a looked-up body: v, ok := m[k]  /  v := m[k]
		bodyVars := map[types.Object]string{}
		ast.Inspect(fd.Body, func(nd ast.Node) bool {
			as, ok := nd.(*ast.AssignStmt)
			if !ok || len(as.Rhs) != 1 {
				return true
			}
			ix, ok := ast.Unparen(as.Rhs[0]).(*ast.IndexExpr)
			if !ok || !w.isBlockMap(w.Info.TypeOf(ix.X)) {
				return true
			}
			if o := identObj(w, as.Lhs[0]); o != nil {
				bodyVars[o] = types.ExprString(ix)
			}
			return true
		})
		isBody := func(e ast.Expr) (string, bool) {
			e = ast.Unparen(e)
			if ix, ok := e.(*ast.IndexExpr); ok && w.isBlockMap(w.Info.TypeOf(ix.X)) {
				return types.ExprString(ix), true
			}
			if o := identObj(w, e); o != nil {
				if s, ok := bodyVars[o]; ok {
					return s, true
				}
			}
			return "", false
		}
		// every condition (if / else-if / for) in the function
		checkCond := func(cond ast.Expr, at ast.Node) {
			usesLookup := false
			var bad []string
			ast.Inspect(cond, func(m ast.Node) bool {
				switch x := m.(type) {
				case *ast.CallExpr:
					if id, ok := x.Fun.(*ast.Ident); ok && id.Name == "len" && len(x.Args) == 1 {
						if s, ok := isBody(x.Args[0]); ok {
							bad = append(bad, "len("+s+")")
						}
					}
				case *ast.BinaryExpr:
					if x.Op == token.EQL || x.Op == token.NEQ {
						for _, pr := range [][2]ast.Expr{{x.X, x.Y}, {x.Y, x.X}} {
							if tv, ok := w.Info.Types[pr[1]]; ok && tv.IsNil() {
								if s, ok := isBody(pr[0]); ok {
									bad = append(bad, s+" "+x.Op.String()+" nil")
								}
							}
						}
					}
				case *ast.Ident:
					if o := w.Info.Uses[x]; o != nil {
						if _, ok := bodyVars[o]; ok {
							usesLookup = true
						}
					}
				case *ast.IndexExpr:
					if w.isBlockMap(w.Info.TypeOf(x.X)) {
						usesLookup = true
					}
				}
				return true
			})
			// comma-ok variables of block-map lookups used in the condition count as lookups too
			ast.Inspect(cond, func(m ast.Node) bool {
				if id, ok := m.(*ast.Ident); ok {
					if o := w.Info.Uses[id]; o != nil && w.okVarOfBlockLookup(fd, o) {
						usesLookup = true
					}
				}
				return true
			})
			if !usesLookup && len(bad) == 0 {
				return
			}
			n++
			construct := "presence test " + types.ExprString(cond)
			if len(bad) > 0 {
				r.bad("R10.1", fname, construct, w.pos(at), fmt.Sprintf("the choice of block definition depends on %v: a block that is defined with an empty body is treated as if it were not defined (an empty override falls back to the inherited text)", bad))
			} else {
				r.ok("R10.1", fname, construct, w.pos(at), "decided on membership (comma-ok) only", true)
			}
		}
		ast.Inspect(fd.Body, func(nd ast.Node) bool {
			switch x := nd.(type) {
			case *ast.IfStmt:
				checkCond(x.Cond, x)
			case *ast.ForStmt:
				if x.Cond != nil {
					checkCond(x.Cond, x)
				}
			}
			return true
		})
	}
	r.floor("block-definition presence tests on render paths", n, 3)

	checkParentCallContext(w, r)
	checkParentRendersNow(w, r)
	checkOverrideLookup(w, r)
	checkExtendingRendersNothingElse(w, r)
	checkBodiesRenderInPlace(w, r)
	checkOwnBlocksRegistered(w, r)
	checkExtendsSearchedEverywhere(w, r)
	checkNestedConstructsRestoreState(w, r)
	checkParsedNodesNotFiltered(w, r)
	checkPrintWritesWholeValue(w, r)
	checkParseReturnsRoot(w, r)
	checkTemplatesNotJudgedAtLoad(w, r)
	checkResolvesThroughLoad(w, r, "R10.5", []string{"ExtendsNode"}, "a parent remembered from an earlier render is used although the parent name is an expression (or the engine would reload it): the child is laid out in the wrong parent")

	// ---- R10.2
	// the function that renders the parent: ExtendsNode.Render itself or a helper it calls
	// (statically, within the package) that receives the child's context, derives the parent's
	// context and invokes Render with it
	root := w.ssaFunc(w.method("ExtendsNode", "Render"))
	var ext *ssa.Function
	var ctxParam *ssa.Parameter
	var nested ssa.Instruction
	var parentCtx ssa.Value
	queue := []*ssa.Function{root}
	visited := map[*ssa.Function]bool{root: true}
	for depth := 0; depth < 4 && nested == nil; depth++ {
		var next []*ssa.Function
		for _, f := range queue {
			var cp *ssa.Parameter
			for _, p := range f.Params {
				if isNamed(p.Type(), twigPath, "RenderContext") {
					cp = p
				}
			}
			if cp != nil && nested == nil {
				instrsOf(f, func(in ssa.Instruction) {
					c, ok := in.(ssa.CallInstruction)
					if !ok {
						return
					}
					cf := calleeFunc(c)
					if cf == nil || cf.Name() != "Render" || !c.Common().IsInvoke() {
						return
					}
					for _, a := range c.Common().Args {
						if isNamed(a.Type(), twigPath, "RenderContext") && a != ssa.Value(cp) {
							ext, ctxParam, nested, parentCtx = f, cp, in, a
						}
					}
				})
			}
			instrsOf(f, func(in ssa.Instruction) {
				if c, ok := in.(ssa.CallInstruction); ok {
					if g := c.Common().StaticCallee(); g != nil && isTwigFn(g) && !visited[g] && len(g.Blocks) > 0 {
						visited[g] = true
						next = append(next, g)
					}
				}
			})
		}
		queue = next
	}
	if nested == nil {
		cannotDecide("R10.2: no nested Render with a derived context found in ExtendsNode.Render or the helpers it calls")
	}
	for _, field := range []string{"blocks", "parentBlocks"} {
		construct := "hand-over of ctx." + field + " to the parent's context"
		how := copiesField(ext, ctxParam, parentCtx, field, func(b *ssa.BasicBlock, in ssa.Instruction) bool {
			if b == nested.Block() {
				return in == nil || instrIndex(in) < instrIndex(nested)
			}
			return b.Dominates(nested.Block())
		}, 0)
		if how != "" {
			r.ok("R10.2", ssaName(ext), construct, w.posOf(nested.Pos()), how+" dominates the nested Render", true)
		} else {
			r.bad("R10.2", ssaName(ext), construct, w.posOf(nested.Pos()), fmt.Sprintf("the parent template is rendered without the child's %s on some path (no copy loop from the child's map into the parent context's map — here or in a helper called with both contexts — dominates the nested Render): overrides or parent() bodies are lost along the extends chain", field))
		}
	}
}

func instrIndex(in ssa.Instruction) int {
	for i, x := range in.Block().Instrs {
		if x == in {
			return i
		}
	}
	return -1
}

// copiesField: fn copies src.<field> into dst.<field> (range over the one, map update into the
// other) at a place accepted by `before` — directly, or through a helper of the package that is
// called there with both contexts and performs the copy on every path to its returns.
func copiesField(fn *ssa.Function, src, dst ssa.Value, field string, before func(b *ssa.BasicBlock, in ssa.Instruction) bool, depth int) string {
	hasUpdate := false
	instrsOf(fn, func(in ssa.Instruction) {
		if mu, ok := in.(*ssa.MapUpdate); ok {
			if base, ok := fieldLoad(mu.Map, "RenderContext", field); ok && sameValue(base, dst) {
				hasUpdate = true
			}
		}
	})
	found := ""
	instrsOf(fn, func(in ssa.Instruction) {
		if found != "" {
			return
		}
		if d, sv, ok := mapsCopyCall(in); ok {
			db, ok1 := fieldLoad(d, "RenderContext", field)
			sb, ok2 := fieldLoad(sv, "RenderContext", field)
			if ok1 && ok2 && sameValue(db, dst) && sameValue(sb, src) && before(in.Block(), in) {
				found = "maps.Copy of the child's map into the parent's map"
			}
			return
		}
		switch x := in.(type) {
		case *ssa.Range:
			if base, ok := fieldLoad(x.X, "RenderContext", field); ok && sameValue(base, src) && hasUpdate && before(x.Block(), nil) {
				found = "copy loop over the child's map into the parent's map"
			}
		case *ssa.Call:
			h := x.Call.StaticCallee()
			if h == nil || depth > 2 || !isTwigFn(h) || len(h.Blocks) == 0 || !before(x.Block(), x) {
				return
			}
			si, di := -1, -1
			for i, a := range x.Call.Args {
				if sameValue(a, src) {
					si = i
				}
				if sameValue(a, dst) {
					di = i
				}
			}
			if si < 0 || di < 0 || si >= len(h.Params) || di >= len(h.Params) {
				return
			}
			// inside the helper the copy must lie on every path to a return
			var rets []*ssa.BasicBlock
			instrsOf(h, func(hi ssa.Instruction) {
				if _, ok := hi.(*ssa.Return); ok {
					rets = append(rets, hi.Block())
				}
			})
			inner := copiesField(h, h.Params[si], h.Params[di], field, func(b *ssa.BasicBlock, _ ssa.Instruction) bool {
				for _, rb := range rets {
					if b != rb && !b.Dominates(rb) {
						return false
					}
				}
				return len(rets) > 0
			}, depth+1)
			if inner != "" {
				found = "call of " + h.Name() + " (" + inner + " on every path)"
			}
		}
	})
	return found
}

// checkParentCallContext (R10.3): a function that renders a body taken from parentBlocks in a
// derived context (parent()) must give that context the effective block table of the caller
// (ctx.blocks), so blocks nested in the parent body are substituted where they stand.
func checkParentCallContext(w *World, r *Report) {
	ctors := w.ctxConstructors()
	n := 0
	for _, fn := range w.pkgFuncs() {
		// looks a body up in parentBlocks?
		var ctxv ssa.Value
		instrsOf(fn, func(in ssa.Instruction) {
			if lk, ok := in.(*ssa.Lookup); ok {
				if base, ok := fieldLoad(lk.X, "RenderContext", "parentBlocks"); ok {
					ctxv = base
				}
			}
		})
		if ctxv == nil {
			continue
		}
		// derived context
		var derived ssa.Value
		instrsOf(fn, func(in ssa.Instruction) {
			if c, ok := in.(*ssa.Call); ok {
				if f := c.Call.StaticCallee(); f != nil && ctors[f] {
					derived = c
				}
			}
		})
		if derived == nil {
			continue
		}
		// renders with the derived context?
		var render ssa.Instruction
		instrsOf(fn, func(in ssa.Instruction) {
			if c, ok := in.(ssa.CallInstruction); ok && c.Common().IsInvoke() && c.Common().Method.Name() == "Render" {
				for _, a := range c.Common().Args {
					if a == derived {
						render = in
					}
				}
			}
		})
		if render == nil {
			continue
		}
		n++
		// what is copied into derived.blocks, and from where?
		var sources []string
		instrsOf(fn, func(in ssa.Instruction) {
			if d, sv, ok := mapsCopyCall(in); ok {
				if base, ok := fieldLoad(d, "RenderContext", "blocks"); ok && base == derived {
					if _, f := originField(sv, 0); f != "" {
						sources = append(sources, f)
					}
				}
				return
			}
			mu, ok := in.(*ssa.MapUpdate)
			if !ok {
				return
			}
			base, ok := fieldLoad(mu.Map, "RenderContext", "blocks")
			if !ok || base != derived {
				return
			}
			// the stored value comes from a range over which map?
			if _, f := originField(mu.Value, 0); f != "" {
				sources = append(sources, f)
			}
		})
		construct := "derived context that renders inherited block bodies receives the caller's effective block table"
		okSrc := len(sources) > 0
		for _, s := range sources {
			if s != "blocks" {
				okSrc = false
			}
		}
		if okSrc {
			r.ok("R10.3", ssaName(fn), construct, w.posOf(render.Pos()), "the derived context's blocks are copied from ctx.blocks", true)
		} else {
			r.bad("R10.3", ssaName(fn), construct, w.posOf(render.Pos()), fmt.Sprintf("the context in which parent() renders the parent body gets its block table from %v instead of the caller's effective blocks: blocks nested in the parent body fall back to an inherited definition instead of the most-derived one", sources))
		}
	}
	r.Counts["parent() render sites"] = n
}

// checkParentRendersNow (R10.6): parent() yields what the inherited body renders *now*, with the
// variables of this moment.  In the function that renders a body taken from parentBlocks, no
// successful return hands back a value read from a field of a RenderContext (a remembered
// earlier rendering): two calls in one block, or a call inside a loop, must each see the
// variables as they are.
func checkParentRendersNow(w *World, r *Report) {
	n := 0
	for _, fn := range w.pkgFuncs() {
		looksUp := false
		instrsOf(fn, func(in ssa.Instruction) {
			if lk, ok := in.(*ssa.Lookup); ok {
				if _, ok := fieldLoad(lk.X, "RenderContext", "parentBlocks"); ok {
					looksUp = true
				}
			}
		})
		ei := errResultIndex(fn.Signature)
		if !looksUp || ei < 0 {
			continue
		}
		instrsOf(fn, func(in ssa.Instruction) {
			ret, ok := in.(*ssa.Return)
			if !ok {
				return
			}
			res := retResults(ret)
			if ei >= len(res) || !isNilConst(res[ei]) || len(res) < 2 {
				return
			}
			n++
			construct := "parent() returns what it rendered in this call"
			seen := map[ssa.Value]bool{}
			var memo func(v ssa.Value, d int) string
			memo = func(v ssa.Value, d int) string {
				if seen[v] || d > 8 {
					return ""
				}
				seen[v] = true
				switch x := v.(type) {
				case *ssa.MakeInterface:
					return memo(x.X, d+1)
				case *ssa.Phi:
					for _, e := range x.Edges {
						if m := memo(e, d+1); m != "" {
							return m
						}
					}
				case *ssa.UnOp:
					if fa, ok := x.X.(*ssa.FieldAddr); ok {
						if tn, f := fieldOfAddr(fa); tn == "RenderContext" {
							return "RenderContext." + f
						}
					}
					if u := unspill(x); u != ssa.Value(x) {
						return memo(u, d+1)
					}
				}
				return ""
			}
			if m := memo(res[0], 0); m != "" {
				r.bad("R10.6", ssaName(fn), construct, w.posOf(ret.Pos()), "a successful return hands back the value of "+m+" instead of what the inherited body renders in this call: a second parent() in the same block, or one inside a loop, repeats the first rendering although variables have changed in between")
			} else {
				r.ok("R10.6", ssaName(fn), construct, w.posOf(ret.Pos()), "the result is not read from a field of the render context", true)
			}
		})
	}
	r.Counts["successful returns of the parent() renderer"] = n
}

// okVarOfBlockLookup: is o the comma-ok variable of a lookup in a block-body map in fd?
func (w *World) okVarOfBlockLookup(fd *ast.FuncDecl, o types.Object) bool {
	found := false
	ast.Inspect(fd.Body, func(nd ast.Node) bool {
		as, ok := nd.(*ast.AssignStmt)
		if !ok || len(as.Lhs) != 2 || len(as.Rhs) != 1 {
			return true
		}
		ix, ok := ast.Unparen(as.Rhs[0]).(*ast.IndexExpr)
		if !ok || !w.isBlockMap(w.Info.TypeOf(ix.X)) {
			return true
		}
		if identObj(w, as.Lhs[1]) == o {
			found = true
		}
		return true
	})
	return found
}

// originsAll: every struct field a value can have been read from (all phi edges).
func originsAll(v ssa.Value, depth int, seen map[ssa.Value]bool, out *[]fieldRef) {
	if depth > 12 || seen[v] {
		return
	}
	seen[v] = true
	switch x := v.(type) {
	case *ssa.UnOp:
		if fa, ok := x.X.(*ssa.FieldAddr); ok {
			t, f := fieldOfAddr(fa)
			*out = append(*out, fieldRef{t, f})
			return
		}
		originsAll(x.X, depth+1, seen, out)
	case *ssa.IndexAddr:
		originsAll(x.X, depth+1, seen, out)
	case *ssa.Index:
		originsAll(x.X, depth+1, seen, out)
	case *ssa.Extract:
		originsAll(x.Tuple, depth+1, seen, out)
	case *ssa.Next:
		originsAll(x.Iter, depth+1, seen, out)
	case *ssa.Range:
		originsAll(x.X, depth+1, seen, out)
	case *ssa.Lookup:
		originsAll(x.X, depth+1, seen, out)
	case *ssa.Slice:
		originsAll(x.X, depth+1, seen, out)
	case *ssa.Phi:
		for _, e := range x.Edges {
			originsAll(e, depth+1, seen, out)
		}
	case *ssa.Alloc:
		if x.Referrers() != nil {
			for _, ref := range *x.Referrers() {
				if st, ok := ref.(*ssa.Store); ok && st.Addr == x {
					originsAll(st.Val, depth+1, seen, out)
				}
			}
		}
	case *ssa.Call:
		// a helper of the package that selects the nodes: what it can return
		if h := x.Call.StaticCallee(); h != nil && isTwigFn(h) && len(h.Blocks) > 0 {
			instrsOf(h, func(in ssa.Instruction) {
				if ret, ok := in.(*ssa.Return); ok {
					for _, rv := range retResults(ret) {
						originsAll(rv, depth+1, seen, out)
					}
				}
			})
		}
	case *ssa.FieldAddr:
		t, f := fieldOfAddr(x)
		*out = append(*out, fieldRef{t, f})
	}
}

// checkOverrideLookup (R10.4): wherever a block's own body (BlockNode.body) can be what is
// rendered, every path to that render has consulted the effective block table (a lookup in
// RenderContext.blocks): the default body is only ever the fallback of a failed lookup, in
// whatever kind of render (plain, extending, inside parent()).
func checkOverrideLookup(w *World, r *Report) {
	n := 0
	for _, fn := range w.pkgFuncs() {
		var sites []ssa.Instruction
		instrsOf(fn, func(in ssa.Instruction) {
			c, ok := in.(ssa.CallInstruction)
			if !ok {
				return
			}
			if !c.Common().IsInvoke() {
				// the body handed to a generic "render these nodes" helper
				if g := c.Common().StaticCallee(); g != nil && isTwigFn(g) {
					for i, a := range c.Common().Args {
						if i >= len(g.Params) || !rendersParam(g, g.Params[i]) {
							continue
						}
						var os []fieldRef
						originsAll(a, 0, map[ssa.Value]bool{}, &os)
						for _, o := range os {
							if o.typ == "BlockNode" && o.field == "body" {
								sites = append(sites, in)
								return
							}
						}
					}
				}
				return
			}
			if c.Common().Method.Name() != "Render" || !isNamed(c.Common().Value.Type(), twigPath, "Node") {
				return
			}
			var os []fieldRef
			originsAll(c.Common().Value, 0, map[ssa.Value]bool{}, &os)
			for _, o := range os {
				if o.typ == "BlockNode" && o.field == "body" {
					sites = append(sites, in)
					return
				}
			}
		})
		for _, site := range sites {
			n++
			var isLookup func(in ssa.Instruction) bool
			lookupSummary := map[*ssa.Function]int{} // 1 = in progress / no, 2 = yes
			isLookup = func(in ssa.Instruction) bool {
				if lk, ok := in.(*ssa.Lookup); ok {
					_, ok = fieldLoad(lk.X, "RenderContext", "blocks")
					return ok
				}
				// a helper every path of which consults the block table before returning
				c, ok := in.(*ssa.Call)
				if !ok {
					return false
				}
				h := c.Call.StaticCallee()
				if h == nil || !isTwigFn(h) || len(h.Blocks) == 0 {
					return false
				}
				if st, done := lookupSummary[h]; done {
					return st == 2
				}
				lookupSummary[h] = 1
				all, nret := true, 0
				instrsOf(h, func(hi ssa.Instruction) {
					if _, isRet := hi.(*ssa.Return); isRet {
						nret++
						if bad, _ := existsPathAvoiding(h, hi, isLookup, nil); bad {
							all = false
						}
					}
				})
				if all && nret > 0 {
					lookupSummary[h] = 2
				}
				return lookupSummary[h] == 2
			}
			construct := "a block's own body is rendered only after the block table was consulted"
			if bad, path := existsPathAvoiding(fn, site, isLookup, nil); bad {
				r.bad("R10.4", ssaName(fn), construct, w.posOf(site.Pos()), "a path renders the block's default body without looking the block up in the effective block table (path "+strings.Join(path, " → ")+"): an override — also an empty one, also inside the body produced by parent() — is ignored on that path")
			} else {
				r.ok("R10.4", ssaName(fn), construct, w.posOf(site.Pos()), "every path to the render passes a lookup in ctx.blocks", true)
			}
		}
	}
	r.floor("render sites of a block's own body", n, 1)
}

// checkExtendingRendersNothingElse — R10.7: a template that extends another produces nothing
// itself.  In every function that hands its output writer to (*ExtendsNode).Render, no other
// call that receives that writer shares a control-flow path with the hand-over (before it or
// after it): whatever a child renders or writes there lands in front of / behind the parent's
// output, whereas everything outside the blocks of an extending template is dropped.
func checkExtendingRendersNothingElse(w *World, r *Report) {
	extRender := w.ssaFunc(w.method("ExtendsNode", "Render"))
	instrReaches := func(a, b ssa.Instruction) bool {
		if a.Block() == b.Block() && instrIndex(a) < instrIndex(b) {
			return true
		}
		for _, s := range a.Block().Succs {
			if blockReaches(s, b.Block()) {
				return true
			}
		}
		return false
	}
	n := 0
	for _, fn := range w.pkgFuncs() {
		var writer *ssa.Parameter
		for _, p := range fn.Params {
			if isNamed(p.Type(), "io", "Writer") {
				writer = p
			}
		}
		if writer == nil {
			continue
		}
		passes := func(c ssa.CallInstruction) bool {
			if c.Common().IsInvoke() && unspill(c.Common().Value) == ssa.Value(writer) {
				return true
			}
			for _, a := range c.Common().Args {
				if unspill(a) == ssa.Value(writer) {
					return true
				}
			}
			return false
		}
		var hand []ssa.CallInstruction
		var others []ssa.CallInstruction
		instrsOf(fn, func(in ssa.Instruction) {
			c, ok := in.(ssa.CallInstruction)
			if !ok || !passes(c) {
				return
			}
			if c.Common().StaticCallee() == extRender && extRender != nil {
				hand = append(hand, c)
			} else {
				others = append(others, c)
			}
		})
		for _, h := range hand {
			n++
			construct := "the extending template renders nothing besides its parent"
			bad := ""
			for _, o := range others {
				if instrReaches(o, h) || instrReaches(h, o) {
					bad = w.posOf(o.Pos())
					break
				}
			}
			if bad == "" {
				r.ok("R10.7", ssaName(fn), construct, w.posOf(h.Pos()), fmt.Sprintf("none of the %d other uses of the writer shares a path with the hand-over", len(others)), true)
			} else {
				r.bad("R10.7", ssaName(fn), construct, w.posOf(h.Pos()), "the call at "+bad+" receives the output writer on a path that also hands the writer to the extends node: what stands outside the blocks of an extending template (control structures, includes, applied filters) is rendered into the output instead of being dropped")
			}
		}
	}
	r.floor("hand-overs of the output to an extends node", n, 1)
}

// mapsCopyCall: in is `maps.Copy(dst, src)` (an instantiation of the standard library's generic
// copy: for k, v := range src { dst[k] = v }).
func mapsCopyCall(in ssa.Instruction) (dst, src ssa.Value, ok bool) {
	c, isCall := in.(*ssa.Call)
	if !isCall || len(c.Call.Args) != 2 {
		return nil, nil, false
	}
	h := c.Call.StaticCallee()
	if h == nil {
		return nil, nil, false
	}
	o := h
	if h.Origin() != nil {
		o = h.Origin()
	}
	if o.Pkg == nil || o.Pkg.Pkg.Path() != "maps" || o.Name() != "Copy" {
		return nil, nil, false
	}
	return c.Call.Args[0], c.Call.Args[1], true
}

// checkBodiesRenderInPlace — R10.8: the pieces of one template render in one context.  A node
// that only structures its own template (if, for, apply, spaceless, set, block, …: every Node
// implementation whose Render does not load another template and is not a macro) hands the
// context it was given — not a clone, not a new one — to every node it renders.  A derived
// context does not know the block that is being rendered, so parent() fails inside it, and what
// the body sets is lost.
func checkBodiesRenderInPlace(w *World, r *Report) {
	loaders := w.templateLoaders()
	ctors := w.ctxConstructors()
	n := 0
	for _, nt := range w.nodeStructs() {
		name := nt.Obj().Name()
		if strings.Contains(name, "Macro") {
			continue
		}
		for _, fn := range w.pkgFuncs() {
			if fn.Signature.Recv() == nil || fn.Synthetic != "" || !types.Identical(deref(fn.Signature.Recv().Type()), nt) {
				continue
			}
			if len(fn.Params) < 3 || loaders[fn] || !isNamed(fn.Params[2].Type(), twigPath, "RenderContext") {
				continue
			}
			// does the renderer (or a part of it) load a template?
			loads := false
			instrsOf(fn, func(in ssa.Instruction) {
				if c, ok := in.(ssa.CallInstruction); ok {
					if g := c.Common().StaticCallee(); g != nil && loaders[g] {
						loads = true
					}
				}
			})
			if loads {
				continue
			}
			ctxParam := fn.Params[2]
			instrsOf(fn, func(in ssa.Instruction) {
				c, ok := in.(ssa.CallInstruction)
				if !ok {
					return
				}
				if c.Common().IsInvoke() {
					if c.Common().Method.Name() != "Render" || !isNamed(c.Common().Value.Type(), twigPath, "Node") {
						return
					}
				} else {
					// a "render these nodes" helper
					g := c.Common().StaticCallee()
					if g == nil || !isTwigFn(g) {
						return
					}
					renders := false
					for i, p := range g.Params {
						if i < len(c.Common().Args) && rendersParam(g, p) {
							renders = true
						}
					}
					if !renders {
						return
					}
				}
				for _, a := range c.Common().Args {
					if !isNamed(a.Type(), twigPath, "RenderContext") {
						continue
					}
					n++
					construct := "nested render uses the node's own context"
					// every origin of the handed context: the parameter itself
					bad := ""
					var walk func(v ssa.Value, seen map[ssa.Value]bool)
					walk = func(v ssa.Value, seen map[ssa.Value]bool) {
						v = unspill(v)
						if seen[v] || bad != "" {
							return
						}
						seen[v] = true
						switch x := v.(type) {
						case *ssa.Parameter:
							if x != ctxParam {
								bad = "parameter " + x.Name()
							}
						case *ssa.Phi:
							for _, e := range x.Edges {
								walk(e, seen)
							}
						case *ssa.Call:
							if g := x.Call.StaticCallee(); g != nil && ctors[g] {
								bad = "a context made by " + g.Name()
							} else {
								bad = "the result of " + x.Call.String()
							}
						default:
							bad = v.String()
						}
					}
					walk(a, map[ssa.Value]bool{})
					if bad == "" {
						r.ok("R10.8", ssaName(fn), construct, w.posOf(in.Pos()), "the context parameter itself on every edge", true)
					} else {
						r.bad("R10.8", ssaName(fn), construct, w.posOf(in.Pos()), "the node renders part of its own template in "+bad+" instead of the context it was given: the derived context has no current block (parent() inside this construct fails or answers for another block) and assignments made in the body do not reach the template")
					}
				}
			})
		}
	}
	r.floor("nested renders in structural node types", n, 3)
}

// checkOwnBlocksRegistered — R10.9: a template that is rendered in its own right defines its
// blocks.  Where a root node enters its blocks into the context's block table, an entry that is
// already there may hold the store back only together with the fact that the template is being
// rendered as somebody's parent (ctx.extending): an included template starts from a copy of the
// includer's table, and a block of the same name there is not an override of the included
// template's block.
func checkOwnBlocksRegistered(w *World, r *Report) {
	n := 0
	for _, fn := range w.pkgFuncs() {
		if fn.Signature.Recv() == nil || !isNamed(deref(fn.Signature.Recv().Type()), twigPath, "RootNode") {
			continue
		}
		instrsOf(fn, func(in ssa.Instruction) {
			mu, ok := in.(*ssa.MapUpdate)
			if !ok {
				return
			}
			if _, ok := fieldLoad(mu.Map, "RenderContext", "blocks"); !ok {
				return
			}
			n++
			construct := "a root node registers its own blocks"
			presence, extending := false, false
			for _, c := range controllingConds(in) {
				var facts []condFact
				expandCond(c, true, &facts, 0)
				expandCond(c, false, &facts, 0)
				for _, cf := range facts {
					if lookupPresence(cf.v, mu.Map, mu.Key) {
						presence = true
					}
					for _, o := range originChain(cf.v) {
						if _, ok := fieldLoad(o, "RenderContext", "extending"); ok {
							extending = true
						}
					}
					if ph, ok := cf.v.(*ssa.Phi); ok {
						for _, e := range ph.Edges {
							if _, ok := fieldLoad(unspill(e), "RenderContext", "extending"); ok {
								extending = true
							}
						}
					}
				}
			}
			if presence && !extending {
				r.bad("R10.9", ssaName(fn), construct, w.posOf(in.Pos()), "whether the template's block is entered into the block table depends only on the table already holding that name, not on the template being rendered as a parent: an included template (its table starts as a copy of the includer's) renders the includer's block of the same name instead of its own")
			} else {
				r.ok("R10.9", ssaName(fn), construct, w.posOf(in.Pos()), "not held back by presence alone", true)
			}
		})
	}
	r.floor("block registrations in the root node", n, 1)
}

// checkExtendsSearchedEverywhere — R10.10: `{% extends %}` counts wherever it stands among the
// top-level nodes.  A loop that looks for the extends tag among a list of nodes (a type assertion
// to *ExtendsNode on an element of a []Node) runs to the end of the list: it has no exit other
// than the exhaustion of the list, unless the exit is taken only where the tag was found.  A
// search that gives up at the first tag that is not the extends tag renders a template whose
// extends follows a set, an import or a block as a stand-alone template.
func checkExtendsSearchedEverywhere(w *World, r *Report) {
	extT := w.named("ExtendsNode")
	n := 0
	for _, fn := range w.pkgFuncs() {
		instrsOf(fn, func(in ssa.Instruction) {
			ta, ok := in.(*ssa.TypeAssert)
			if !ok || !types.Identical(deref(ta.AssertedType), extT) {
				return
			}
			// element of a []Node?
			u, ok := unspill(ta.X).(*ssa.UnOp)
			if !ok {
				return
			}
			ia, ok := u.X.(*ssa.IndexAddr)
			if !ok {
				return
			}
			// loop header: block of the index phi
			var ph *ssa.Phi
			switch x := ia.Index.(type) {
			case *ssa.Phi:
				ph = x
			case *ssa.BinOp:
				ph, _ = x.X.(*ssa.Phi)
			}
			if ph == nil {
				return
			}
			h := ph.Block()
			n++
			// natural loop of h
			body := map[*ssa.BasicBlock]bool{h: true}
			var stack []*ssa.BasicBlock
			for _, p := range h.Preds {
				if h.Dominates(p) && !body[p] {
					body[p] = true
					stack = append(stack, p)
				}
			}
			for len(stack) > 0 {
				b := stack[len(stack)-1]
				stack = stack[:len(stack)-1]
				for _, p := range b.Preds {
					if !body[p] {
						body[p] = true
						stack = append(stack, p)
					}
				}
			}
			// found-edge: true edge of the assertion's ok
			var okv ssa.Value
			if ta.CommaOk && ta.Referrers() != nil {
				for _, ref := range *ta.Referrers() {
					if ex, isEx := ref.(*ssa.Extract); isEx && ex.Index == 1 {
						okv = ex
					}
				}
			}
			bad := ""
			for b := range body {
				if b == h {
					continue
				}
				for _, s := range b.Succs {
					if body[s] {
						continue
					}
					// an exit from inside the loop: only where the tag was found
					found := false
					if okv != nil {
						for _, c := range controllingConds(b.Instrs[len(b.Instrs)-1]) {
							if c == okv {
								found = true
							}
						}
						if cv, _, isIf := ifCond(b); isIf && cv == okv {
							found = true
						}
					}
					if !found {
						bad = w.posOf(b.Instrs[len(b.Instrs)-1].Pos())
						if bad == "" || bad == "-" {
							bad = fmt.Sprintf("block %d", b.Index)
						}
					}
				}
			}
			construct := "the search for the extends tag visits every node"
			if bad == "" {
				r.ok("R10.10", ssaName(fn), construct, w.posOf(ta.Pos()), "the loop ends by exhaustion (or where the tag was found)", true)
			} else {
				r.bad("R10.10", ssaName(fn), construct, w.posOf(ta.Pos()), "the loop that looks for the extends tag can be left ("+bad+") before the list is exhausted and without having found it: a template in which something else — a set, an import, a block — precedes {% extends %} is rendered as if it extended nothing")
			}
		})
	}
	r.floor("searches for the extends tag among nodes", n, 1)
}

// checkNestedConstructsRestoreState — R10.11: a function that can be entered again while it is
// running (a tag handler that parses a body in which the same tag may stand; a Render that renders
// children of its own kind) does not bracket the nested work with two different constants written
// to the same field of the shared parser / context.  `p.inBlock = true; body(); p.inBlock = false`
// is right for the outermost activation only: when the inner one returns it writes false while the
// outer one is still in its body, so what follows a nested block inside a block is read as if it
// stood outside every block.  Bracketing by saving and restoring the previous value, or by
// counting, is what nesting needs; both are accepted.
func checkNestedConstructsRestoreState(w *World, r *Report) {
	g := w.callgraph()
	reachMemo := map[*ssa.Function]map[*ssa.Function]bool{}
	reaches := func(from, to *ssa.Function) bool {
		m, ok := reachMemo[from]
		if !ok {
			m = w.reachableFrom([]*ssa.Function{from})
			reachMemo[from] = m
		}
		return m[to]
	}
	n := 0
	for _, fn := range w.pkgFuncs() {
		// constant stores to fields of shared objects (anything not allocated here)
		type cs struct {
			st *ssa.Store
			fa *ssa.FieldAddr
			c  *ssa.Const
		}
		var stores []cs
		instrsOf(fn, func(in ssa.Instruction) {
			st, ok := in.(*ssa.Store)
			if !ok {
				return
			}
			fa, ok := st.Addr.(*ssa.FieldAddr)
			if !ok {
				return
			}
			c, ok := st.Val.(*ssa.Const)
			if !ok || c.Value == nil {
				return
			}
			if _, local := origin(fa.X).(*ssa.Alloc); local {
				return
			}
			stores = append(stores, cs{st, fa, c})
		})
		if len(stores) < 2 {
			continue
		}
		// calls through which fn can be entered again
		var nested []ssa.Instruction
		if node := g.Nodes[fn]; node != nil {
			seenSite := map[ssa.Instruction]bool{}
			for _, e := range node.Out {
				if e.Site == nil || seenSite[e.Site] || e.Callee.Func == nil {
					continue
				}
				if _, isDefer := e.Site.(*ssa.Defer); isDefer {
					continue
				}
				if e.Callee.Func == fn || reaches(e.Callee.Func, fn) {
					seenSite[e.Site] = true
					nested = append(nested, e.Site)
				}
			}
		}
		if len(nested) == 0 {
			continue
		}
		after := func(a, b ssa.Instruction) bool { // b can run after a
			if a.Block() == b.Block() {
				if instrIndex(a) < instrIndex(b) {
					return true
				}
				// same block, b first: only around a loop
				for _, s := range a.Block().Succs {
					if blockReaches(s, b.Block()) {
						return true
					}
				}
				return false
			}
			return blockReaches(a.Block(), b.Block())
		}
		for _, s2 := range stores {
			for _, s1 := range stores {
				if s1.st == s2.st || s1.fa.Field != s2.fa.Field || !sameValue(origin(s1.fa.X), origin(s2.fa.X)) {
					continue
				}
				if constant.Compare(s1.c.Value, token.EQL, s2.c.Value) {
					continue
				}
				var via ssa.Instruction
				for _, c := range nested {
					if after(s1.st, c) && after(c, s2.st) && !after(s2.st, s1.st) {
						via = c
						break
					}
				}
				if via == nil {
					continue
				}
				n++
				tn, f := fieldOfAddr(s2.fa)
				construct := fmt.Sprintf("%s.%s set to %s around nested work and to %s after it", tn, f, s1.c.Value.ExactString(), s2.c.Value.ExactString())
				r.bad("R10.11", ssaName(fn), construct, w.posOf(s2.st.Pos()), fmt.Sprintf("the function can be entered again through the call at %s while the field is set; the inner activation's exit writes %s while the outer one is still inside its body, so whatever follows a nested construct is handled as if it stood outside — save and restore the previous value instead", w.posOf(via.Pos()), s2.c.Value.ExactString()))
			}
		}
	}
	r.Counts["constant brackets around re-entrant work"] = n
}

// checkParsedNodesNotFiltered — R10.12: every node the parser produced for a body is in the tree.
// In parser-reachable code no list of nodes is copied element by element with the copy of an
// element depending on what that element is (its type, its fields, a predicate over it): that is
// a filter, and what it filters out — "a block that only calls parent()", "an empty text" — is a
// definition that a template further down the extends chain, or the block registry, still counts
// on.  Copies that keep every element (flattening, re-slicing) are not affected.
func checkParsedNodesNotFiltered(w *World, r *Report) {
	checkListsNotFiltered(w, r, "R10.12", w.lookup("Node").Type(), "node", "parsed nodes (block definitions among them) are dropped from the tree, and the extends chain below this template no longer finds what the template wrote")
}

// checkListsNotFiltered: the rule of R10.12 for lists of the given element type (nodes, tokens).
func checkListsNotFiltered(w *World, r *Report, rule string, nodeT types.Type, what string, consequence string) {
	reach := w.parseReachable()
	n := 0
	for _, fn := range w.pkgFuncs() {
		if !reach[fn] {
			continue
		}
		instrsOf(fn, func(in ssa.Instruction) {
			c, ok := in.(*ssa.Call)
			if !ok {
				return
			}
			b, ok := c.Call.Value.(*ssa.Builtin)
			if !ok || b.Name() != "append" || len(c.Call.Args) != 2 {
				return
			}
			sl, ok := c.Call.Args[0].Type().Underlying().(*types.Slice)
			if !ok || !types.Identical(sl.Elem(), nodeT) {
				return
			}
			// the appended element: one element taken out of another []Node
			var elem ssa.Value
			for _, v := range originChain(c.Call.Args[1]) {
				if st := elementStoredInto(v); st != nil {
					elem = st
				}
			}
			if elem == nil {
				return
			}
			src, ok := elementOfNodeList(elem, nodeT)
			if !ok {
				return
			}
			n++
			construct := "element of " + describe(src) + " copied into another " + what + " list"
			bad := ""
			for _, cond := range iterationConds(in, unspill(elem)) {
				if valueDependsOn(cond, elem, 8) || readsSameElement(cond, elem) {
					bad = w.posOf(cond.Pos())
				}
			}
			if bad == "" {
				r.ok(rule, ssaName(fn), construct, w.posOf(in.Pos()), "the copy does not depend on what the element is", true)
			} else {
				r.bad(rule, ssaName(fn), construct, w.posOf(in.Pos()), "whether the "+what+" is kept depends on the test at "+bad+" over the "+what+" itself: "+consequence)
			}
		})
	}
	r.Counts["element-wise copies of "+what+" lists in the parser"] = n
}

// elementStoredInto: for the variadic slice of append(xs, v) — new [1]Node with v stored at 0 —
// the stored v; nil otherwise.
func elementStoredInto(v ssa.Value) ssa.Value {
	sl, ok := v.(*ssa.Slice)
	if !ok {
		return nil
	}
	al, ok := sl.X.(*ssa.Alloc)
	if !ok || al.Referrers() == nil {
		return nil
	}
	for _, ref := range *al.Referrers() {
		ia, ok := ref.(*ssa.IndexAddr)
		if !ok || ia.Referrers() == nil {
			continue
		}
		for _, r2 := range *ia.Referrers() {
			if st, ok := r2.(*ssa.Store); ok && st.Addr == ssa.Value(ia) {
				return st.Val
			}
		}
	}
	return nil
}

// elementOfNodeList: v is xs[i] for a []Node xs (a range variable or an indexed read)
func elementOfNodeList(v ssa.Value, nodeT types.Type) (ssa.Value, bool) {
	for _, o := range originChain(v) {
		if u, ok := o.(*ssa.UnOp); ok && u.Op == token.MUL {
			if ia, ok := u.X.(*ssa.IndexAddr); ok {
				if sl, ok := ia.X.Type().Underlying().(*types.Slice); ok && types.Identical(sl.Elem(), nodeT) {
					return ia.X, true
				}
			}
		}
	}
	return nil, false
}

// valueDependsOn: on is among the transitive operands of v (through calls, assertions, loads of fields)
func valueDependsOn(v, on ssa.Value, depth int) bool {
	seen := map[ssa.Value]bool{}
	var walk func(v ssa.Value, d int) bool
	walk = func(v ssa.Value, d int) bool {
		if v == nil || seen[v] || d > depth {
			return false
		}
		seen[v] = true
		if v == on {
			return true
		}
		if in, ok := v.(ssa.Instruction); ok {
			for _, op := range in.Operands(nil) {
				if *op != nil && walk(*op, d+1) {
					return true
				}
			}
		}
		return false
	}
	return walk(v, 0)
}

// checkPrintWritesWholeValue — R10.13: a print tag writes the text of its value, all of it.
// In PrintNode.Render every string written to the output is, on every edge, the result of a
// conversion of the evaluated value (ToString, strconv.Format…) — not a slice of it and not the
// result of trimming or replacing.  `{{ parent() }}` is a print tag: cutting "the line break
// Twig would have swallowed" off its text makes parent() yield something other than what the
// next definition up the chain renders.
func checkPrintWritesWholeValue(w *World, r *Report) {
	n := 0
	for _, fn := range w.pkgFuncs() {
		if fn.Name() != "Render" || fn.Signature.Recv() == nil || !isNamed(fn.Signature.Recv().Type(), twigPath, "PrintNode") || fn.Synthetic != "" || len(fn.Params) < 2 {
			continue
		}
		out := fn.Params[1]
		instrsOf(fn, func(in ssa.Instruction) {
			c, ok := in.(ssa.CallInstruction)
			if !ok {
				return
			}
			cc := c.Common()
			var text ssa.Value
			if cc.IsInvoke() {
				if cc.Value == ssa.Value(out) && len(cc.Args) == 1 {
					text = cc.Args[0]
				}
			} else if len(cc.Args) >= 2 && cc.Args[0] == ssa.Value(out) {
				if b, ok := cc.Args[1].Type().Underlying().(*types.Basic); ok && b.Info()&types.IsString != 0 {
					text = cc.Args[1]
				}
			}
			if text == nil {
				return
			}
			n++
			bad := ""
			seen := map[ssa.Value]bool{}
			var walk func(v ssa.Value, d int)
			walk = func(v ssa.Value, d int) {
				v = unspill(v)
				if seen[v] || d > 8 || bad != "" {
					return
				}
				seen[v] = true
				switch x := v.(type) {
				case *ssa.Phi:
					for _, e := range x.Edges {
						walk(e, d+1)
					}
				case *ssa.Slice:
					bad = "a slice of the text"
				case *ssa.Convert:
					walk(x.X, d+1)
				case *ssa.BinOp:
					bad = "a concatenation"
				case *ssa.Call:
					if g := x.Call.StaticCallee(); g != nil && g.Pkg != nil && g.Pkg.Pkg.Path() == "strings" {
						bad = "the result of strings." + g.Name()
					}
				}
			}
			walk(text, 0)
			construct := "the text written is the converted value"
			if bad == "" {
				r.ok("R10.13", ssaName(fn), construct, w.posOf(in.Pos()), "a conversion result on every edge", true)
			} else {
				r.bad("R10.13", ssaName(fn), construct, w.posOf(in.Pos()), "the print tag writes "+bad+" instead of the value's text: what `{{ parent() }}` (or any printed value) contributes differs from what the expression evaluates to")
			}
		})
	}
	r.floor("writes of PrintNode.Render", n, 1)
}

// readsSameElement: v is computed from a read of the list element elem was read from (xs[i].f
// beside xs[i]: another load through an address with the same list and the same index).
func readsSameElement(v, elem ssa.Value) bool {
	var ea *ssa.IndexAddr
	for _, o := range originChain(elem) {
		if u, ok := o.(*ssa.UnOp); ok && u.Op == token.MUL {
			if ia, ok := u.X.(*ssa.IndexAddr); ok {
				ea = ia
			}
		}
	}
	if ea == nil {
		return false
	}
	seen := map[ssa.Value]bool{}
	var walk func(v ssa.Value, d int) bool
	walk = func(v ssa.Value, d int) bool {
		if v == nil || seen[v] || d > 8 {
			return false
		}
		seen[v] = true
		if ia, ok := v.(*ssa.IndexAddr); ok && ia != ea && sameValue(unspill(ia.X), unspill(ea.X)) && sameValue(unspill(ia.Index), unspill(ea.Index)) {
			return true
		}
		if in, ok := v.(ssa.Instruction); ok {
			for _, op := range in.Operands(nil) {
				if *op != nil && walk(*op, d+1) {
					return true
				}
			}
		}
		return false
	}
	return walk(v, 0)
}

// checkParseReturnsRoot — R10.14: a parsed template is a RootNode.  Every return of Parser.Parse
// that can carry a nil error returns a *RootNode built here (NewRootNode / GetRootNode / a
// literal).  The inheritance code recognises a template's top level by that type — the extends
// tag is looked for among a RootNode's children, the blocks a parent contributes to parent() are
// collected from a RootNode — so a template handed out as its only child node takes no part in
// block substitution.
func checkParseReturnsRoot(w *World, r *Report) {
	parse := w.ssaFunc(w.method("Parser", "Parse"))
	rootT := w.named("RootNode")
	n := 0
	ei := errResultIndex(parse.Signature)
	instrsOf(parse, func(in ssa.Instruction) {
		ret, ok := in.(*ssa.Return)
		if !ok {
			return
		}
		res := retResults(ret)
		if ei < 0 || ei >= len(res) || len(res) < 1 {
			return
		}
		if errorSurelyNonNil(res[ei], ret.Block()) {
			return
		}
		n++
		bad := ""
		seen := map[ssa.Value]bool{}
		var walk func(v ssa.Value, d int)
		walk = func(v ssa.Value, d int) {
			v = unspill(v)
			if v == nil || seen[v] || d > 8 || bad != "" {
				return
			}
			seen[v] = true
			switch x := v.(type) {
			case *ssa.Phi:
				for _, e := range x.Edges {
					walk(e, d+1)
				}
				return
			case *ssa.MakeInterface:
				if types.Identical(deref(x.X.Type()), rootT) {
					return
				}
				bad = "a " + x.X.Type().String()
				return
			case *ssa.ChangeInterface:
				walk(x.X, d+1)
				return
			case *ssa.Call:
				if g := x.Call.StaticCallee(); g != nil && isTwigFn(g) && g.Signature.Results().Len() >= 1 {
					if types.Identical(deref(g.Signature.Results().At(0).Type()), rootT) {
						return
					}
					// a constructor declared to return Node: what it returns
					if len(g.Blocks) > 0 && g != parse {
						instrsOf(g, func(gi ssa.Instruction) {
							if gr, ok := gi.(*ssa.Return); ok {
								walk(retResults(gr)[0], d+1)
							}
						})
						return
					}
				}
			case *ssa.Const:
				if x.IsNil() {
					return
				}
			}
			bad = describe(v) + " (" + v.String() + ")"
		}
		walk(res[0], 0)
		construct := "Parse returns a RootNode"
		if bad == "" {
			r.ok("R10.14", ssaName(parse), construct, w.posOf(ret.Pos()), "a *RootNode on every edge", true)
		} else {
			r.bad("R10.14", ssaName(parse), construct, w.posOf(ret.Pos()), "Parse can hand out "+bad+" as the whole template: the code that walks the extends chain looks for the extends tag and for the blocks of a parent among the children of a *RootNode, so such a template contributes no blocks and parent() finds nothing")
		}
	})
	r.floor("successful returns of Parser.Parse", n, 1)
}

// checkTemplatesNotJudgedAtLoad — R10.15: whether a template loads does not depend on what it
// extends.  In every function that parses a source (calls Parser.Parse), no return of a non-nil
// error is control dependent on a value computed from the parsed tree: a load-time verdict on the
// extends tag ("extends itself", "parent missing") has to resolve names the way the renderer
// does — relative to the template the render started with, through every loader — and refuses
// chains that render perfectly well (`admin/layout.twig` extending `layout.twig`).
func checkTemplatesNotJudgedAtLoad(w *World, r *Report) {
	parse := w.method("Parser", "Parse")
	n := 0
	for _, fn := range w.pkgFuncs() {
		var tree ssa.Value
		instrsOf(fn, func(in ssa.Instruction) {
			if c, ok := in.(*ssa.Call); ok && calleeFunc(c) == parse && c.Referrers() != nil {
				for _, ref := range *c.Referrers() {
					if ex, ok := ref.(*ssa.Extract); ok && ex.Index == 0 {
						tree = ex
					}
				}
			}
		})
		if tree == nil {
			continue
		}
		ei := errResultIndex(fn.Signature)
		if ei < 0 {
			continue
		}
		instrsOf(fn, func(in ssa.Instruction) {
			ret, ok := in.(*ssa.Return)
			if !ok {
				return
			}
			res := retResults(ret)
			if ei >= len(res) || isNilConst(res[ei]) {
				return
			}
			n++
			bad := ""
			for _, c := range controllingConds(in) {
				// whether something was built at all (x == nil) says nothing about the tree
				if bo, ok := c.(*ssa.BinOp); ok && (bo.Op == token.EQL || bo.Op == token.NEQ) && (isNilConst(bo.X) || isNilConst(bo.Y)) {
					other := bo.X
					if isNilConst(bo.X) {
						other = bo.Y
					}
					if unspill(other) != tree {
						continue
					}
				}
				if valueDependsOn(c, tree, 8) {
					bad = w.posOf(c.Pos())
				}
			}
			construct := "a failing return does not depend on the parsed tree"
			if bad == "" {
				r.ok("R10.15", ssaName(fn), construct, w.posOf(ret.Pos()), "controlled by the parser's / loader's own errors only", true)
			} else {
				r.bad("R10.15", ssaName(fn), construct, w.posOf(ret.Pos()), "the template is refused because of what its tree contains (test at "+bad+"): a verdict on the extends tag at load time does not resolve parent names the way the renderer does, so chains that render correctly are rejected")
			}
		})
	}
	r.floor("failing returns of functions that parse a source", n, 3)
}
