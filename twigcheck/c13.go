package main

// C13 — whitespace-control dashes: "accepted on every tag boundary, never changes whether a
// template parses" is a pairing-completeness rule over token-kind comparisons in the parser.
//
// R13.1 plain and trim kinds are always tested together (same operand, same polarity) in every
//       parser-side comparison, switch case list and kind predicate.
// R13.2 trimming is applied: Parse passes every token stream through the whitespace-control pass
//       before parsing; the trim helpers' cut set is exactly {space, tab, CR, LF}; the pass pairs
//       START_TRIM with the preceding and END_TRIM with the following text token.
// R13.3 every tokenizer that can emit a START kind can emit both END kinds after either START kind.

import (
	"fmt"
	"go/ast"
	"go/constant"
	"go/token"
	"go/types"
	"sort"
	"strings"

	"golang.org/x/tools/go/ssa"
)

func init() { register("C13", checkC13) }

var kindPairs = [][2]string{
	{"TOKEN_BLOCK_END", "TOKEN_BLOCK_END_TRIM"},
	{"TOKEN_BLOCK_START", "TOKEN_BLOCK_START_TRIM"},
	{"TOKEN_VAR_END", "TOKEN_VAR_END_TRIM"},
	{"TOKEN_VAR_START", "TOKEN_VAR_START_TRIM"},
}

type kindTable struct {
	partner map[types.Object]types.Object
	name    map[types.Object]string
}

func (w *World) kinds() *kindTable {
	kt := &kindTable{partner: map[types.Object]types.Object{}, name: map[types.Object]string{}}
	for _, p := range kindPairs {
		a, ok1 := w.lookup(p[0]).(*types.Const)
		b, ok2 := w.lookup(p[1]).(*types.Const)
		if !ok1 || !ok2 {
			cannotDecide("token kind anchors %v are not constants", p)
		}
		if constant.Compare(a.Val(), token.EQL, b.Val()) {
			cannotDecide("token kinds %v have the same value", p)
		}
		kt.partner[a], kt.partner[b] = b, a
		kt.name[a], kt.name[b] = p[0], p[1]
	}
	return kt
}

func (kt *kindTable) kindOf(w *World, e ast.Expr) types.Object {
	e = ast.Unparen(e)
	var id *ast.Ident
	switch x := e.(type) {
	case *ast.Ident:
		id = x
	case *ast.SelectorExpr:
		id = x.Sel
	default:
		return nil
	}
	o := w.Info.Uses[id]
	if o == nil {
		return nil
	}
	if _, ok := kt.partner[o]; ok {
		return o
	}
	return nil
}

// parserSide: the function has a *Parser receiver or parameter.
func (w *World) parserSide(fd *ast.FuncDecl) bool {
	obj, ok := w.Info.Defs[fd.Name].(*types.Func)
	if !ok {
		return false
	}
	sig := obj.Type().(*types.Signature)
	if r := sig.Recv(); r != nil && isNamed(r.Type(), twigPath, "Parser") {
		return true
	}
	for i := 0; i < sig.Params().Len(); i++ {
		if isNamed(sig.Params().At(i).Type(), twigPath, "Parser") {
			return true
		}
	}
	return false
}

// kindPredicate: func(x int) bool { return <boolean expression over x ==/!= kinds> }
func (w *World) kindPredicate(fd *ast.FuncDecl, kt *kindTable) bool {
	obj, ok := w.Info.Defs[fd.Name].(*types.Func)
	if !ok || fd.Body == nil || len(fd.Body.List) != 1 {
		return false
	}
	sig := obj.Type().(*types.Signature)
	if sig.Recv() != nil || sig.Params().Len() != 1 || sig.Results().Len() != 1 {
		return false
	}
	if !types.Identical(sig.Results().At(0).Type(), types.Typ[types.Bool]) {
		return false
	}
	ret, ok := fd.Body.List[0].(*ast.ReturnStmt)
	if !ok || len(ret.Results) != 1 {
		return false
	}
	found := false
	ast.Inspect(ret.Results[0], func(n ast.Node) bool {
		if be, ok := n.(*ast.BinaryExpr); ok && (be.Op == token.EQL || be.Op == token.NEQ) {
			if kt.kindOf(w, be.X) != nil || kt.kindOf(w, be.Y) != nil {
				found = true
			}
		}
		return true
	})
	return found
}

func checkC13(w *World, r *Report) {
	r.Explanation = "Decides the clause 'the dash is accepted on every tag boundary and never changes whether a template parses' as a pairing-completeness rule: (R13.1) in every parser-side function, every comparison / switch case / kind predicate that tests one of TOKEN_{BLOCK,VAR}_{START,END} tests its *_TRIM partner on the same operand with the same polarity, so no handler can accept a tag delimiter and reject its dashed form; (R13.2) Parse runs the whitespace-control pass on every tokenisation path before parsing, the trim cut set is exactly space/tab/CR/LF, and the pass pairs START_TRIM with the preceding and END_TRIM with the following text token; (R13.3) every tokenizer that emits START kinds can emit both END kinds after either START kind. Trim decisions are local: every condition controlling a trim reads only tokens[i±c], the index and constants (no loop-carried state). Not decided: output equality with the hand-trimmed template (value-level)."
	r.Explanation += " Rules added in later rounds: (R13.2) trim locality through helpers and pass wrappers; (R13.4) the pass rewrites the tokens the parser reads. (R13.5) token kinds are only compared for equality; (R13.6) bit sets of kinds are wide enough for every constant that reaches them."
	r.Explanation += " Round 11: (R13.7) arms for a delimiter kind and its trimming twin advance the cursor alike."
	r.Explanation += " Round 12/13: (R13.8) only the tokenizer finds tags; (R13.9) tables indexed by a token kind cover all kinds."
	r.RuleText = "obligation = one kind comparison / case list / predicate / call site; non-trivial = comparisons and case lists that mention a pairable kind (each needs its partner located in the enclosing boolean expression)"
	r.Trusted = []string{"go/types constant resolution", "strings.TrimLeft/TrimRight semantics (stdlib)"}

	kt := w.kinds()
	nSites := 0
	preds := map[*types.Func]bool{}
	for _, fd := range w.sortedDecls() {
		if w.kindPredicate(fd, kt) {
			preds[w.Info.Defs[fd.Name].(*types.Func)] = true
		}
	}
	// predicates the parser side asks (a predicate that only the whitespace pass of the tokenizer
	// uses — "is this one of the trimming kinds" — is about the dash, not about accepting a tag)
	askedByParser := map[*types.Func]bool{}
	for _, fd := range w.sortedDecls() {
		if !w.parserSide(fd) || fd.Body == nil {
			continue
		}
		ast.Inspect(fd.Body, func(n ast.Node) bool {
			if c, ok := n.(*ast.CallExpr); ok {
				if f := w.callee(c); f != nil && preds[f] {
					askedByParser[f] = true
				}
			}
			return true
		})
	}
	for _, fd := range w.sortedDecls() {
		obj := w.Info.Defs[fd.Name].(*types.Func)
		if !w.parserSide(fd) && !(preds[obj] && askedByParser[obj]) {
			continue
		}
		fname := w.declName(fd)
		ast.Inspect(fd.Body, func(n ast.Node) bool {
			switch x := n.(type) {
			case *ast.BinaryExpr:
				if x.Op != token.EQL && x.Op != token.NEQ {
					return true
				}
				var k types.Object
				var operand ast.Expr
				if k = kt.kindOf(w, x.Y); k != nil {
					operand = x.X
				} else if k = kt.kindOf(w, x.X); k != nil {
					operand = x.Y
				} else {
					return true
				}
				nSites++
				join := token.LOR
				if x.Op == token.NEQ {
					join = token.LAND
				}
				var top ast.Node = x
				for {
					p := w.parents[top]
					if pe, ok := p.(*ast.ParenExpr); ok {
						top = pe
						continue
					}
					if pb, ok := p.(*ast.BinaryExpr); ok && pb.Op == join {
						top = pb
						continue
					}
					break
				}
				partner := kt.partner[k]
				found := false
				ast.Inspect(top, func(m ast.Node) bool {
					b2, ok := m.(*ast.BinaryExpr)
					if !ok || b2.Op != x.Op {
						return true
					}
					for _, pr := range [][2]ast.Expr{{b2.X, b2.Y}, {b2.Y, b2.X}} {
						if kt.kindOf(w, pr[1]) == partner && types.ExprString(ast.Unparen(pr[0])) == types.ExprString(ast.Unparen(operand)) {
							found = true
						}
					}
					return true
				})
				construct := fmt.Sprintf("%s %s %s", types.ExprString(operand), x.Op, kt.name[k])
				if found {
					r.ok("R13.1", fname, construct, w.pos(x), "partner "+kt.name[partner]+" tested on the same operand in the same "+join.String()+"-group", true)
				} else {
					r.bad("R13.1", fname, construct, w.pos(x), "the "+kt.name[partner]+" form of this delimiter is not tested alongside ("+join.String()+"-joined, same operand): a template that uses the dash on this tag boundary is parsed differently (typically rejected)")
				}
			case *ast.SwitchStmt:
				// collect all kinds named in the case clauses
				var all []types.Object
				for _, cl := range x.Body.List {
					for _, e := range cl.(*ast.CaseClause).List {
						if k := kt.kindOf(w, e); k != nil {
							all = append(all, k)
						}
					}
				}
				if len(all) == 0 {
					return true
				}
				has := map[types.Object]bool{}
				for _, k := range all {
					has[k] = true
				}
				hasDefault := false
				var defaultArm *ast.CaseClause
				for _, cl := range x.Body.List {
					if cl.(*ast.CaseClause).List == nil {
						hasDefault = true
						defaultArm = cl.(*ast.CaseClause)
					}
				}
				// an arm rejects its kind when it ends by returning a non-nil error
				armRejects := func(cc *ast.CaseClause) bool {
					if cc == nil || len(cc.Body) == 0 {
						return false
					}
					ret, ok := cc.Body[len(cc.Body)-1].(*ast.ReturnStmt)
					if !ok || len(ret.Results) == 0 {
						return false
					}
					last := ret.Results[len(ret.Results)-1]
					if id, ok := ast.Unparen(last).(*ast.Ident); ok && id.Name == "nil" {
						return false
					}
					return true
				}
				for _, cl := range x.Body.List {
					cc := cl.(*ast.CaseClause)
					inClause := map[types.Object]bool{}
					for _, e := range cc.List {
						if k := kt.kindOf(w, e); k != nil {
							inClause[k] = true
						}
					}
					var ks []string
					for k := range inClause {
						ks = append(ks, kt.name[k])
					}
					sort.Strings(ks)
					for _, kn := range ks {
						k := w.lookup(kn)
						nSites++
						construct := "switch case " + kn
						if inClause[kt.partner[k]] {
							r.ok("R13.1", fname, construct, w.pos(cc), "partner in the same case list", true)
						} else if has[kt.partner[k]] {
							r.ok("R13.1", fname, construct, w.pos(cc), "partner handled by another case of the same switch", true)
						} else if hasDefault && armRejects(cc) && armRejects(defaultArm) {
							r.ok("R13.1", fname, construct, w.pos(cc), "partner falls to the default clause of the same switch, which rejects it like this arm rejects its kind", true)
						} else if hasDefault {
							r.bad("R13.1", fname, construct, w.pos(cc), "the switch gives "+kn+" an arm of its own and lets "+kt.name[kt.partner[k]]+" fall to the default clause, which does something else: the dashed and the plain form of the delimiter are read differently here (a tag closed with the other form is not recognised as closed)")
						} else {
							r.bad("R13.1", fname, construct, w.pos(cc), "the switch has no case for "+kt.name[kt.partner[k]])
						}
					}
				}
			case *ast.CallExpr:
				if f := w.callee(x); f != nil && preds[f] {
					nSites++
					r.ok("R13.1", fname, "call "+f.Name()+"("+exprArgs(x)+")", w.pos(x), "kind predicate (verified separately to test both forms)", false)
				}
			}
			return true
		})
	}
	r.floor("token-kind tests in parser-side functions", nSites, 20)
	r.Counts["kind predicates"] = len(preds)

	checkR13_2(w, r, kt)
	checkR13_3(w, r, kt)
	checkPassSeesParserTokens(w, r)
	checkKindsComparedForEquality(w, r)
	checkKindSetsWideEnough(w, r)
	checkTwinKindsAdvanceAlike(w, r)
	checkOnlyTheTokenizerFindsTags(w, r)
	checkKindTablesCoverAllKinds(w, r)
}

func exprArgs(c *ast.CallExpr) string {
	var s []string
	for _, a := range c.Args {
		s = append(s, types.ExprString(a))
	}
	return strings.Join(s, ", ")
}

// trimHelper: func(s string) string { return strings.TrimLeft|TrimRight(s, "<cutset>") }.
// Returns "left"/"right" and the cut set.
func (w *World) trimHelper(fd *ast.FuncDecl) (dir string, cut string, ok bool) {
	if fd.Body == nil {
		return "", "", false
	}
	if len(fd.Body.List) != 1 {
		return w.scanTrimHelper(fd)
	}
	ret, isRet := fd.Body.List[0].(*ast.ReturnStmt)
	if !isRet || len(ret.Results) != 1 {
		return "", "", false
	}
	call, isCall := ast.Unparen(ret.Results[0]).(*ast.CallExpr)
	if !isCall || len(call.Args) != 2 {
		return "", "", false
	}
	switch {
	case w.calleeIs(call, "strings", "", "TrimLeft"):
		dir = "left"
	case w.calleeIs(call, "strings", "", "TrimRight"):
		dir = "right"
	case w.calleeIs(call, "strings", "", "TrimLeftFunc"):
		return "left", "<function " + types.ExprString(call.Args[1]) + ">", true
	case w.calleeIs(call, "strings", "", "TrimRightFunc"):
		return "right", "<function " + types.ExprString(call.Args[1]) + ">", true
	default:
		return "", "", false
	}
	tv, has := w.Info.Types[call.Args[1]]
	if !has || tv.Value == nil || tv.Value.Kind() != constant.String {
		return dir, "<non-constant " + types.ExprString(call.Args[1]) + ">", true
	}
	return dir, constant.StringVal(tv.Value), true
}

func checkR13_2(w *World, r *Report, kt *kindTable) {
	// (a) trim helpers and their cut sets
	helpers := map[*types.Func]string{}
	for _, fd := range w.sortedDecls() {
		dir, cut, ok := w.trimHelper(fd)
		if !ok {
			continue
		}
		obj := w.Info.Defs[fd.Name].(*types.Func)
		helpers[obj] = dir
		set := map[rune]bool{}
		for _, c := range cut {
			set[c] = true
		}
		want := " \t\n\r"
		good := len(set) == 4 && !strings.HasPrefix(cut, "<")
		for _, c := range want {
			if !set[c] {
				good = false
			}
		}
		if good {
			r.ok("R13.2", w.declName(fd), "cut set of strings.Trim"+strings.Title(dir), w.pos(fd), "constant set = {space, tab, LF, CR}", true)
		} else {
			r.bad("R13.2", w.declName(fd), "cut set of strings.Trim"+strings.Title(dir), w.pos(fd), fmt.Sprintf("whitespace cut set is %q, the property requires exactly space, tab, CR, LF", cut))
		}
	}
	r.floor("trim helpers (strings.TrimLeft/TrimRight with constant cut set)", len(helpers), 2)

	// (b) whitespace-control passes: functions assigning X[i±1].Value = helper(X[i±1].Value)
	passes := map[*types.Func]bool{}
	for _, fd := range w.sortedDecls() {
		var assigns []*ast.AssignStmt
		ast.Inspect(fd.Body, func(n ast.Node) bool {
			as, ok := n.(*ast.AssignStmt)
			if !ok || len(as.Lhs) != 1 || len(as.Rhs) != 1 {
				return true
			}
			call, ok := as.Rhs[0].(*ast.CallExpr)
			if !ok {
				return true
			}
			if f := w.callee(call); f == nil || helpers[f] == "" {
				return true
			}
			assigns = append(assigns, as)
			return true
		})
		if len(assigns) == 0 {
			continue
		}
		obj := w.Info.Defs[fd.Name].(*types.Func)
		passes[obj] = true
		fname := w.declName(fd)
		seen := map[string]bool{}
		for _, as := range assigns {
			call := as.Rhs[0].(*ast.CallExpr)
			dir := helpers[w.callee(call)]
			// target: <slice>[i+c].Value
			sel, ok := as.Lhs[0].(*ast.SelectorExpr)
			var off int
			var okIdx bool
			if ok && sel.Sel.Name == "Value" {
				if ix, isIx := sel.X.(*ast.IndexExpr); isIx {
					off, okIdx = constOffset(w, ix.Index)
				}
			}
			construct := "trim " + dir + " of neighbour"
			if !okIdx {
				r.bad("R13.2", fname, construct, w.pos(as), "trimmed value is not stored into tokens[i±1].Value")
				continue
			}
			// the argument must be the same element
			if types.ExprString(call.Args[0]) != types.ExprString(as.Lhs[0]) {
				r.bad("R13.2", fname, construct, w.pos(as), "the trimmed token is not the token that is overwritten")
				continue
			}
			// enclosing kind test: nearest enclosing if whose condition compares kinds
			var tested []string
			textChecked := false
			for p := w.parents[as]; p != nil; p = w.parents[p] {
				// switch form of the kind test: case K1, K2: of a switch over <token>.Type
				if cc, ok := p.(*ast.CaseClause); ok && len(tested) == 0 {
					if sw, ok := w.parents[w.parents[cc]].(*ast.SwitchStmt); ok && sw.Tag != nil {
						var ks []string
						for _, e := range cc.List {
							if k := kt.kindOf(w, e); k != nil {
								ks = append(ks, kt.name[k])
							}
						}
						if len(ks) == len(cc.List) && len(ks) > 0 {
							tested = ks
						}
					}
				}
				ifs, ok := p.(*ast.IfStmt)
				if !ok {
					continue
				}
				ks := kindsTested(w, kt, ifs.Cond)
				if len(ks) > 0 && len(tested) == 0 {
					tested = ks
				}
				if mentionsConst(w, ifs.Cond, "TOKEN_TEXT") {
					textChecked = true
				}
			}
			sort.Strings(tested)
			wantKinds := "TOKEN_BLOCK_END_TRIM,TOKEN_VAR_END_TRIM"
			wantOff, wantDir := 1, "left"
			if dir == "right" {
				wantKinds = "TOKEN_BLOCK_START_TRIM,TOKEN_VAR_START_TRIM"
				wantOff = -1
			}
			_ = wantDir
			got := strings.Join(tested, ",")
			seen[dir] = true
			switch {
			case got != wantKinds:
				r.bad("R13.2", fname, construct, w.pos(as), fmt.Sprintf("trimming %s-side whitespace is performed under kinds {%s}, expected {%s}", dir, got, wantKinds))
			case off != wantOff:
				r.bad("R13.2", fname, construct, w.pos(as), fmt.Sprintf("trims the token at offset %+d, expected %+d", off, wantOff))
			case !textChecked:
				r.bad("R13.2", fname, construct, w.pos(as), "the neighbour is not checked to be a TOKEN_TEXT token")
			default:
				r.ok("R13.2", fname, construct, w.pos(as), fmt.Sprintf("under {%s}, neighbour %+d, TOKEN_TEXT only", got, off), true)
			}
		}
		for _, d := range []string{"left", "right"} {
			if !seen[d] {
				r.bad("R13.2", fname, "trim "+d+" of neighbour", w.pos(fd), "the whitespace-control pass never trims on this side")
			}
		}
	}
	r.floor("whitespace-control passes", len(passes), 1)
	checkTrimLocality(w, r, passes, helpers)

	// wrappers: a function every path of which (to a return) calls a pass is a pass for rule (c)
	for changed, round := true, 0; changed && round < 4; round++ {
		changed = false
		for _, fn := range w.pkgFuncs() {
			obj, _ := fn.Object().(*types.Func)
			if obj == nil || passes[obj] || len(fn.Blocks) == 0 {
				continue
			}
			calls := false
			instrsOf(fn, func(in ssa.Instruction) {
				if cc, ok := in.(ssa.CallInstruction); ok {
					if f := calleeFunc(cc); f != nil && passes[f] {
						calls = true
					}
				}
			})
			if !calls {
				continue
			}
			gen := func(x ssa.Instruction) bool {
				if cc, ok := x.(ssa.CallInstruction); ok {
					if f := calleeFunc(cc); f != nil && passes[f] {
						return true
					}
				}
				return false
			}
			// a loop that calls the (per-token) pass in its body has run the pass when it is left
			// through its head — also when there was nothing to visit
			loopOf := func(h *ssa.BasicBlock) map[*ssa.BasicBlock]bool {
				body := map[*ssa.BasicBlock]bool{}
				var stack []*ssa.BasicBlock
				for _, p := range h.Preds {
					if h.Dominates(p) && !body[p] {
						body[p] = true
						stack = append(stack, p)
					}
				}
				if len(stack) == 0 {
					return nil
				}
				body[h] = true
				for len(stack) > 0 {
					b := stack[len(stack)-1]
					stack = stack[:len(stack)-1]
					for _, p := range b.Preds {
						if !body[p] {
							body[p] = true
							stack = append(stack, p)
						}
					}
				}
				return body
			}
			edgeGen := func(b *ssa.BasicBlock, i int) bool {
				body := loopOf(b)
				if body == nil || body[b.Succs[i]] {
					return false
				}
				for blk := range body {
					for _, in := range blk.Instrs {
						if gen(in) {
							return true
						}
					}
				}
				return false
			}
			all, nret := true, 0
			instrsOf(fn, func(in ssa.Instruction) {
				if _, ok := in.(*ssa.Return); ok {
					nret++
					if bad, _ := existsPathAvoiding(fn, in, gen, edgeGen); bad {
						all = false
					}
				}
			})
			if all && nret > 0 {
				passes[obj] = true
				changed = true
			}
		}
	}

	// conditional wrappers: functions with an error result that run a pass on every path on which
	// the error they return is nil (`toks, err := tokenize(); if err == nil { pass() }; return …, err`)
	condPasses := map[*types.Func]bool{}
	for _, fn := range w.pkgFuncs() {
		obj, _ := fn.Object().(*types.Func)
		ei := errResultIndex(fn.Signature)
		if obj == nil || passes[obj] || len(fn.Blocks) == 0 || ei < 0 {
			continue
		}
		gen := func(x ssa.Instruction) bool {
			if cc, ok := x.(ssa.CallInstruction); ok {
				if f := calleeFunc(cc); f != nil && passes[f] {
					return true
				}
			}
			return false
		}
		calls := false
		instrsOf(fn, func(in ssa.Instruction) {
			if gen(in) {
				calls = true
			}
		})
		if !calls {
			continue
		}
		all, nret := true, 0
		instrsOf(fn, func(in ssa.Instruction) {
			ret, ok := in.(*ssa.Return)
			if !ok {
				return
			}
			nret++
			res := retResults(ret)
			var assume []ssa.Value
			if ei < len(res) {
				if isNilConst(res[ei]) {
					assume = nil
				} else {
					assume = []ssa.Value{res[ei]}
				}
			}
			if bad, _ := existsPathAssuming(fn, nil, in, gen, nil, assume); bad {
				all = false
			}
		})
		if all && nret > 0 {
			condPasses[obj] = true
		}
	}

	// (c) Parse: every feasible path to the parser's main loop passes a whitespace-control pass
	parse := w.ssaFunc(w.method("Parser", "Parse"))
	outer := w.method("Parser", "parseOuterTemplate")
	n := 0
	instrsOf(parse, func(in ssa.Instruction) {
		c, ok := in.(ssa.CallInstruction)
		if !ok || calleeFunc(c) != outer {
			return
		}
		n++
		gen := func(x ssa.Instruction) bool {
			if cc, ok := x.(ssa.CallInstruction); ok {
				if f := calleeFunc(cc); f != nil && passes[f] {
					return true
				}
			}
			return false
		}
		// the nil edge of a test of the error returned by a conditional wrapper
		edgeGen := func(b *ssa.BasicBlock, i int) bool {
			v, trueIdx, ok := ifCond(b)
			if !ok {
				return false
			}
			bo, ok := v.(*ssa.BinOp)
			if !ok || (bo.Op != token.EQL && bo.Op != token.NEQ) {
				return false
			}
			x, y := bo.X, bo.Y
			if isNilConst(x) {
				x, y = y, x
			}
			if !isNilConst(y) {
				return false
			}
			ex, ok := unspill(x).(*ssa.Extract)
			if !ok {
				return false
			}
			call, ok := ex.Tuple.(*ssa.Call)
			if !ok {
				return false
			}
			f := calleeFunc(call)
			if f == nil || !condPasses[f] || ex.Index != errResultIndex(call.Call.Signature()) {
				return false
			}
			nilIdx := trueIdx
			if bo.Op == token.NEQ {
				nilIdx = 1 - trueIdx
			}
			return i == nilIdx
		}
		if bad, path := existsPathAvoiding(parse, in, gen, edgeGen); bad {
			r.bad("R13.2", ssaName(parse), "whitespace pass before parseOuterTemplate", w.posOf(in.Pos()), "a feasible path reaches the parser without the whitespace-control pass: "+strings.Join(path, " → "))
		} else {
			r.ok("R13.2", ssaName(parse), "whitespace pass before parseOuterTemplate", w.posOf(in.Pos()), "every feasible path from entry passes a whitespace-control pass (nil-test correlation on err)", true)
		}
	})
	r.floor("calls of parseOuterTemplate in Parse", n, 1)
}

func constOffset(w *World, e ast.Expr) (int, bool) {
	e = ast.Unparen(e)
	be, ok := e.(*ast.BinaryExpr)
	if !ok || (be.Op != token.ADD && be.Op != token.SUB) {
		return 0, false
	}
	tv, has := w.Info.Types[be.Y]
	if !has || tv.Value == nil {
		return 0, false
	}
	c, ok := constant.Int64Val(tv.Value)
	if !ok {
		return 0, false
	}
	if be.Op == token.SUB {
		c = -c
	}
	return int(c), true
}

func kindsTested(w *World, kt *kindTable, cond ast.Expr) []string {
	var out []string
	ast.Inspect(cond, func(n ast.Node) bool {
		// a kind predicate of the package: the kinds its single return expression tests
		if c, ok := n.(*ast.CallExpr); ok {
			if f := w.callee(c); f != nil {
				if fd := w.decl(f); fd != nil && w.kindPredicate(fd, kt) {
					out = append(out, kindsTested(w, kt, fd.Body.List[0].(*ast.ReturnStmt).Results[0])...)
					return false
				}
			}
		}
		if be, ok := n.(*ast.BinaryExpr); ok && be.Op == token.EQL {
			if k := kt.kindOf(w, be.Y); k != nil {
				out = append(out, kt.name[k])
			} else if k := kt.kindOf(w, be.X); k != nil {
				out = append(out, kt.name[k])
			}
		}
		return true
	})
	return out
}

func mentionsConst(w *World, e ast.Expr, name string) bool {
	obj := w.lookup(name)
	found := false
	ast.Inspect(e, func(n ast.Node) bool {
		if id, ok := n.(*ast.Ident); ok && w.Info.Uses[id] == obj {
			found = true
		}
		return true
	})
	return found
}

// R13.3: tokenizer-side functions reachable from Parse pair the START kinds too, and every
// one of the eight kinds is produced somewhere on that side.
func checkR13_3(w *World, r *Report, kt *kindTable) {
	reach := w.parseReachable()
	produced := map[types.Object]bool{}
	n := 0
	for _, fd := range w.sortedDecls() {
		obj := w.Info.Defs[fd.Name].(*types.Func)
		if w.parserSide(fd) {
			continue
		}
		sf := w.ssaFunc(obj)
		if !reach[sf] {
			continue
		}
		// skip whitespace passes (they legitimately test TRIM kinds alone): recognised by R13.2(b)
		isPass := false
		ast.Inspect(fd.Body, func(m ast.Node) bool {
			if c, ok := m.(*ast.CallExpr); ok {
				if f := w.callee(c); f != nil {
					if d := w.decls[f]; d != nil {
						if _, _, ok := w.trimHelper(d); ok {
							isPass = true
						}
					}
				}
			}
			return true
		})
		if isPass || w.kindPredicate(fd, kt) {
			continue
		}
		fname := w.declName(fd)
		ast.Inspect(fd.Body, func(m ast.Node) bool {
			switch x := m.(type) {
			case *ast.BinaryExpr:
				if x.Op != token.EQL && x.Op != token.NEQ {
					return true
				}
				var k types.Object
				var operand ast.Expr
				if k = kt.kindOf(w, x.Y); k != nil {
					operand = x.X
				} else if k = kt.kindOf(w, x.X); k != nil {
					operand = x.Y
				} else {
					return true
				}
				n++
				join := token.LOR
				if x.Op == token.NEQ {
					join = token.LAND
				}
				var top ast.Node = x
				for {
					p := w.parents[top]
					if pe, ok := p.(*ast.ParenExpr); ok {
						top = pe
						continue
					}
					if pb, ok := p.(*ast.BinaryExpr); ok && pb.Op == join {
						top = pb
						continue
					}
					break
				}
				found := false
				ast.Inspect(top, func(q ast.Node) bool {
					if b2, ok := q.(*ast.BinaryExpr); ok && b2.Op == x.Op {
						for _, pr := range [][2]ast.Expr{{b2.X, b2.Y}, {b2.Y, b2.X}} {
							if kt.kindOf(w, pr[1]) == kt.partner[k] && types.ExprString(ast.Unparen(pr[0])) == types.ExprString(ast.Unparen(operand)) {
								found = true
							}
						}
					}
					return true
				})
				construct := fmt.Sprintf("%s %s %s", types.ExprString(operand), x.Op, kt.name[k])
				if found {
					r.ok("R13.3", fname, construct, w.pos(x), "tokenizer treats both opening forms alike", true)
				} else {
					r.bad("R13.3", fname, construct, w.pos(x), "the tokenizer tests "+kt.name[k]+" without "+kt.name[kt.partner[k]]+": the end delimiter (and its dash) is recognised differently depending on the dash of the opening delimiter")
				}
				return true
			case *ast.Ident:
				if o := w.Info.Uses[x]; o != nil {
					if _, ok := kt.partner[o]; ok {
						// a use that is not an operand of a comparison = a produced kind
						if be, ok := w.parents[x].(*ast.BinaryExpr); !ok || (be.Op != token.EQL && be.Op != token.NEQ) {
							produced[o] = true
						}
					}
				}
			}
			return true
		})
	}
	// kinds listed in package-level tables (`var tagTypes = [...]int{TOKEN_VAR_START_TRIM, …}`)
	// that tokenizer-side functions index are produced as well
	for _, f := range w.Files {
		for _, d := range f.Decls {
			gd, ok := d.(*ast.GenDecl)
			if !ok || gd.Tok != token.VAR {
				continue
			}
			for _, sp := range gd.Specs {
				vs, ok := sp.(*ast.ValueSpec)
				if !ok {
					continue
				}
				for _, val := range vs.Values {
					ast.Inspect(val, func(q ast.Node) bool {
						if id, ok := q.(*ast.Ident); ok {
							if o := w.Info.Uses[id]; o != nil {
								if _, isKind := kt.partner[o]; isKind {
									produced[o] = true
								}
							}
						}
						return true
					})
				}
			}
		}
	}
	for _, p := range kindPairs {
		for _, nm := range p {
			if produced[w.lookup(nm)] {
				r.ok("R13.3", "(tokenizers reachable from Parse)", "produces "+nm, "-", "kind constant flows into a token on the tokenizer side", false)
			} else {
				r.bad("R13.3", "(tokenizers reachable from Parse)", "produces "+nm, "-", "no tokenizer reachable from Parse can emit "+nm)
			}
		}
	}
	r.Counts["tokenizer-side kind comparisons"] = n
}

// checkTrimLocality (R13.2): whether a neighbour is trimmed is decided by the kinds of the tokens
// around position i alone.  Every condition that controls a trim store is a function of the loop
// index, constants, len(tokens) and fields of tokens[i+c]; a condition that reads loop-carried
// state (a flag set in an earlier iteration) makes a dash trim or not depending on what came
// earlier in the template.
func checkTrimLocality(w *World, r *Report, passes map[*types.Func]bool, helpers map[*types.Func]string) {
	n := 0
	for obj := range passes {
		fn := w.ssaFunc(obj)
		if fn == nil || len(fn.Blocks) == 0 {
			continue
		}
		var pure func(v ssa.Value, seen map[ssa.Value]bool, depth int) string
		pure = func(v ssa.Value, seen map[ssa.Value]bool, depth int) string {
			if seen[v] || depth > 14 {
				return ""
			}
			seen[v] = true
			switch x := v.(type) {
			case *ssa.Const, *ssa.Parameter, *ssa.Global:
				return ""
			case *ssa.Phi:
				if x.Comment == "&&" || x.Comment == "||" {
					for _, e := range x.Edges {
						if why := pure(e, seen, depth+1); why != "" {
							return why
						}
					}
					return ""
				}
				// the loop index: integer phi of constants and itself +/- constant
				if bt, ok := x.Type().Underlying().(*types.Basic); ok && bt.Info()&types.IsInteger != 0 {
					okInd := true
					for _, e := range x.Edges {
						if _, isC := e.(*ssa.Const); isC {
							continue
						}
						if bo, isB := e.(*ssa.BinOp); isB && (bo.Op == token.ADD || bo.Op == token.SUB) && bo.X == ssa.Value(x) {
							if _, isC := bo.Y.(*ssa.Const); isC {
								continue
							}
						}
						okInd = false
					}
					if okInd {
						return ""
					}
				}
				name := x.Comment
				if name == "" {
					name = x.Name()
				}
				return "the loop-carried variable " + name
			case *ssa.BinOp:
				if why := pure(x.X, seen, depth+1); why != "" {
					return why
				}
				return pure(x.Y, seen, depth+1)
			case *ssa.UnOp:
				if al, ok := x.X.(*ssa.Alloc); ok {
					// a local: pure if every store into it is (token copies), and it is not
					// written in one iteration and read in another — approximated by: all stores
					// are loads of tokens[...] elements
					if al.Referrers() != nil {
						for _, ref := range *al.Referrers() {
							if st, ok := ref.(*ssa.Store); ok && st.Addr == al {
								if why := pure(st.Val, seen, depth+1); why != "" {
									return why
								}
							}
						}
					}
					return ""
				}
				return pure(x.X, seen, depth+1)
			case *ssa.FieldAddr:
				return pure(x.X, seen, depth+1)
			case *ssa.Field:
				return pure(x.X, seen, depth+1)
			case *ssa.IndexAddr:
				if why := pure(x.X, seen, depth+1); why != "" {
					return why
				}
				return pure(x.Index, seen, depth+1)
			case *ssa.Index:
				if why := pure(x.X, seen, depth+1); why != "" {
					return why
				}
				return pure(x.Index, seen, depth+1)
			case *ssa.Alloc:
				return ""
			case *ssa.Convert:
				return pure(x.X, seen, depth+1)
			case *ssa.Extract:
				return pure(x.Tuple, seen, depth+1)
			case *ssa.Next:
				return pure(x.Iter, seen, depth+1)
			case *ssa.Range:
				return pure(x.X, seen, depth+1)
			case *ssa.Call:
				if b, ok := x.Call.Value.(*ssa.Builtin); ok && (b.Name() == "len" || b.Name() == "cap") {
					return pure(x.Call.Args[0], seen, depth+1)
				}
				// kind predicates and other package functions of the token kind / text
				if g := x.Call.StaticCallee(); g != nil && isTwigFn(g) && !x.Call.IsInvoke() {
					for _, a := range x.Call.Args {
						if why := pure(a, seen, depth+1); why != "" {
							return why
						}
					}
					return ""
				}
				return "the result of " + x.Call.String()
			}
			return fmt.Sprintf("a value of kind %T", v)
		}
		instrsOf(fn, func(in ssa.Instruction) {
			st, ok := in.(*ssa.Store)
			if !ok {
				return
			}
			c, ok := st.Val.(*ssa.Call)
			if !ok {
				return
			}
			f := calleeFunc(c)
			if f == nil || helpers[f] == "" {
				return
			}
			n++
			construct := "trim " + helpers[f] + " is decided by the neighbouring token kinds alone"
			bad := ""
			for _, cond := range controllingConds(st) {
				if why := pure(cond, map[ssa.Value]bool{}, 0); why != "" {
					bad = why
				}
			}
			if bad == "" {
				r.ok("R13.2", ssaName(fn), construct, w.posOf(st.Pos()), "every controlling condition reads only tokens[i±c], the index and constants", true)
			} else {
				r.bad("R13.2", ssaName(fn), construct, w.posOf(st.Pos()), "whether the dash trims depends on "+bad+": the same dashed tag trims or does not trim depending on what precedes it in the template")
			}
		})
	}
	r.Counts["trim stores checked for locality"] = n
}

// scanTrimHelper: a hand-written trim — func(s string) string whose every result is s, s[i:] or
// s[:n], with the bound found by a loop that tests bytes of s.  The cut set is the set of
// constants the bytes are compared with for (in)equality; any other test of a byte (`<= ' '`,
// a call such as unicode.IsSpace) is reported as a non-constant set.
func (w *World) scanTrimHelper(fd *ast.FuncDecl) (dir string, cut string, ok bool) {
	obj, _ := w.Info.Defs[fd.Name].(*types.Func)
	if obj == nil {
		return "", "", false
	}
	sig := obj.Type().(*types.Signature)
	if sig.Recv() != nil || sig.Params().Len() != 1 || sig.Results().Len() != 1 ||
		!types.Identical(sig.Params().At(0).Type(), types.Typ[types.String]) || !types.Identical(sig.Results().At(0).Type(), types.Typ[types.String]) {
		return "", "", false
	}
	fn := w.ssaFunc(obj)
	if fn == nil || len(fn.Params) != 1 {
		return "", "", false
	}
	p := fn.Params[0]
	left, right, other := false, false, false
	nRet := 0
	instrsOf(fn, func(in ssa.Instruction) {
		ret, isRet := in.(*ssa.Return)
		if !isRet {
			return
		}
		nRet++
		var classify func(v ssa.Value, d int)
		classify = func(v ssa.Value, d int) {
			switch x := v.(type) {
			case *ssa.Parameter:
				if x != p {
					other = true
				}
			case *ssa.Slice:
				if x.X != ssa.Value(p) {
					other = true
					return
				}
				if x.Low != nil {
					left = true
				}
				if x.High != nil {
					right = true
				}
			case *ssa.Phi:
				if d > 3 {
					other = true
					return
				}
				for _, e := range x.Edges {
					classify(e, d+1)
				}
			case *ssa.Const:
				// "" for an all-blank input
			default:
				other = true
			}
		}
		classify(retResults(ret)[0], 0)
	})
	if other || nRet == 0 || left == right {
		return "", "", false
	}
	dir = "left"
	if right {
		dir = "right"
	}
	// byte tests
	set := map[rune]bool{}
	odd := ""
	isByteOfS := func(v ssa.Value) bool {
		for k := 0; k < 3; k++ {
			switch x := v.(type) {
			case *ssa.Convert:
				v = x.X
				continue
			case *ssa.Index:
				return x.X == ssa.Value(p)
			case *ssa.Lookup:
				return x.X == ssa.Value(p)
			}
			break
		}
		return false
	}
	nTests := 0
	instrsOf(fn, func(in ssa.Instruction) {
		switch x := in.(type) {
		case *ssa.BinOp:
			a, b := x.X, x.Y
			if !isByteOfS(a) {
				a, b = b, a
			}
			if !isByteOfS(a) {
				return
			}
			nTests++
			c, isC := b.(*ssa.Const)
			if !isC || c.Value == nil || c.Value.Kind() != constant.Int {
				odd = "<bytes compared with a non-constant>"
				return
			}
			if x.Op != token.EQL && x.Op != token.NEQ {
				kv, _ := constant.Int64Val(c.Value)
				odd = fmt.Sprintf("<every byte %s %q>", x.Op, rune(kv))
				return
			}
			kv, _ := constant.Int64Val(c.Value)
			set[rune(kv)] = true
		case ssa.CallInstruction:
			for _, a := range x.Common().Args {
				if isByteOfS(a) {
					nTests++
					// a byte predicate of the package: the bytes it accepts, by evaluating it
					if g := x.Common().StaticCallee(); g != nil && isTwigFn(g) && len(x.Common().Args) == 1 {
						if tab := bytePredTable(g); tab != nil {
							for bv := 0; bv < 256; bv++ {
								if tab[bv] {
									set[rune(bv)] = true
								}
							}
							continue
						}
					}
					name := "a function"
					if f := calleeFunc(x); f != nil {
						name = f.FullName()
					}
					odd = "<bytes classified by " + name + ">"
				}
			}
		}
	})
	if nTests == 0 {
		return "", "", false
	}
	if odd != "" {
		return dir, odd, true
	}
	var rs []rune
	for c := range set {
		rs = append(rs, c)
	}
	sort.Slice(rs, func(i, j int) bool { return rs[i] < rs[j] })
	return dir, string(rs), true
}

// checkPassSeesParserTokens — R13.4: the whitespace pass rewrites the very tokens the parser
// reads.  The pass works on a slice it loads from a field of the tokenizer (t.result); every
// successful return of a tokenizer function that hands Parse its token slice returns that field
// (or the value it has just stored there), never a copy: a copy made for some templates only
// (large ones) is parsed untrimmed, so every dash in such a template trims nothing.
func checkPassSeesParserTokens(w *World, r *Report) {
	tokenT := w.named("Token")
	// fields that passes read their token slice from
	passFields := map[string]bool{}
	for _, fn := range w.pkgFuncs() {
		if fn.Signature.Recv() == nil {
			continue
		}
		trims := false
		instrsOf(fn, func(in ssa.Instruction) {
			if c, ok := in.(*ssa.Call); ok {
				if g := c.Call.StaticCallee(); g != nil && w.inPkg(g) && g.Object() != nil {
					if d := w.decls[g.Object().(*types.Func)]; d != nil {
						if _, _, ok := w.trimHelper(d); ok {
							trims = true
						}
					}
				}
			}
		})
		if !trims {
			continue
		}
		instrsOf(fn, func(in ssa.Instruction) {
			ia, ok := in.(*ssa.IndexAddr)
			if !ok {
				return
			}
			sl, ok := deref(ia.X.Type()).Underlying().(*types.Slice)
			if !ok || !types.Identical(sl.Elem(), tokenT) {
				return
			}
			if u, ok := unspill(ia.X).(*ssa.UnOp); ok {
				if fa, ok := u.X.(*ssa.FieldAddr); ok {
					tn, f := fieldOfAddr(fa)
					passFields[tn+"."+f] = true
				}
			}
		})
	}
	if len(passFields) == 0 {
		r.note("R13.4: no whitespace pass reads its tokens from a tokenizer field (the pass works on its argument)")
		return
	}
	n := 0
	for _, fn := range w.pkgFuncs() {
		recv := fn.Signature.Recv()
		res := fn.Signature.Results()
		if recv == nil || res.Len() != 2 {
			continue
		}
		sl, ok := res.At(0).Type().Underlying().(*types.Slice)
		if !ok || !types.Identical(sl.Elem(), tokenT) {
			continue
		}
		// stores the field the pass reads?
		var stored []ssa.Value
		instrsOf(fn, func(in ssa.Instruction) {
			if st, ok := in.(*ssa.Store); ok {
				if fa, ok := st.Addr.(*ssa.FieldAddr); ok {
					tn, f := fieldOfAddr(fa)
					if passFields[tn+"."+f] {
						stored = append(stored, st.Val)
					}
				}
			}
		})
		if len(stored) == 0 {
			continue
		}
		instrsOf(fn, func(in ssa.Instruction) {
			ret, ok := in.(*ssa.Return)
			if !ok {
				return
			}
			rr := retResults(ret)
			if len(rr) != 2 || !isNilConst(rr[1]) {
				return
			}
			n++
			construct := "tokens returned to the parser are the ones the whitespace pass rewrites"
			good := false
			if u, ok := rr[0].(*ssa.UnOp); ok {
				if fa, ok := u.X.(*ssa.FieldAddr); ok {
					tn, f := fieldOfAddr(fa)
					good = passFields[tn+"."+f]
				}
			}
			for _, sv := range stored {
				if sameValue(sv, rr[0]) {
					good = true
				}
			}
			if good {
				r.ok("R13.4", ssaName(fn), construct, w.posOf(ret.Pos()), "the returned slice is the tokenizer field the pass works on", true)
			} else {
				r.bad("R13.4", ssaName(fn), construct, w.posOf(ret.Pos()), "this return hands the parser a slice other than the tokenizer field the whitespace-control pass rewrites (a copy): the pass trims tokens the parser never reads, so in templates that take this path every `-` delimiter parses but trims nothing")
			}
		})
	}
	r.Counts["successful returns of tokenizers whose tokens a pass rewrites"] = n
}

// checkKindsComparedForEquality — R13.5: token kinds are names, not magnitudes.  No ordered
// comparison (<, <=, >, >=) has a Token.Type value as an operand: the dashed delimiter kinds were
// added to the kind enumeration after EOF, so "Type >= TOKEN_EOF" and the like treat `-%}` / `{%-`
// differently from `%}` / `{%`.
func checkKindsComparedForEquality(w *World, r *Report) {
	n := 0
	isKind := func(v ssa.Value) bool {
		for _, o := range originChain(v) {
			if _, ok := fieldLoad(o, "Token", "Type"); ok {
				return true
			}
		}
		return false
	}
	for _, fn := range w.pkgFuncs() {
		instrsOf(fn, func(in ssa.Instruction) {
			bo, ok := in.(*ssa.BinOp)
			if !ok {
				return
			}
			if !isKind(bo.X) && !isKind(bo.Y) {
				return
			}
			n++
			switch bo.Op {
			case token.LSS, token.LEQ, token.GTR, token.GEQ:
				r.bad("R13.5", ssaName(fn), "token kind in an ordered comparison", w.posOf(bo.Pos()), "a token's kind is compared by magnitude: the whitespace-trimming delimiter kinds sit elsewhere in the enumeration than their plain partners, so the test takes a tag with a dash differently from the same tag without it")
			}
		})
	}
	r.ok("R13.5", "(package)", "token kinds are only compared for equality", "-", fmt.Sprintf("%d comparisons with a Token.Type operand examined", n), true)
	r.floor("comparisons with a Token.Type operand", n, 20)
}

// checkKindSetsWideEnough — R13.6: a set of token kinds kept as bits has a bit for every kind.
// For every shift whose count is (converted from) a parameter, an element of a variadic
// parameter or a constant: every constant that reaches the count from the package's call sites
// is smaller than the width of the shifted integer.  TOKEN_BLOCK_END_TRIM is kind 16: in a
// uint16 set the dashed closing delimiter is silently never a member.
func checkKindSetsWideEnough(w *World, r *Report) {
	n := 0
	width := func(t types.Type) int64 {
		b, ok := t.Underlying().(*types.Basic)
		if !ok {
			return 0
		}
		switch b.Kind() {
		case types.Int8, types.Uint8:
			return 8
		case types.Int16, types.Uint16:
			return 16
		case types.Int32, types.Uint32:
			return 32
		case types.Int64, types.Uint64, types.Int, types.Uint, types.Uintptr:
			return 64
		}
		return 0
	}
	var consts func(v ssa.Value, seen map[ssa.Value]bool, d int, out *[]int64)
	consts = func(v ssa.Value, seen map[ssa.Value]bool, d int, out *[]int64) {
		v = unspill(v)
		if seen[v] || d > 6 {
			return
		}
		seen[v] = true
		switch x := v.(type) {
		case *ssa.Const:
			if x.Value != nil && x.Value.Kind() == constant.Int {
				*out = append(*out, x.Int64())
			}
		case *ssa.Convert:
			consts(x.X, seen, d, out)
		case *ssa.ChangeType:
			consts(x.X, seen, d, out)
		case *ssa.Phi:
			for _, e := range x.Edges {
				consts(e, seen, d, out)
			}
		case *ssa.Parameter:
			if vals, ok := callerValues(x, -1); ok {
				for _, cv := range vals {
					consts(cv.val, seen, d+1, out)
				}
			}
		case *ssa.UnOp:
			// element of a (variadic) slice parameter
			if ia, ok := x.X.(*ssa.IndexAddr); ok {
				if p, ok := unspill(ia.X).(*ssa.Parameter); ok {
					if vals, ok := callerValues(p, -1); ok {
						for _, cv := range vals {
							for _, e := range variadicElems(cv.val) {
								consts(e, seen, d+1, out)
							}
						}
					}
				}
			}
		}
	}
	for _, fn := range w.pkgFuncs() {
		instrsOf(fn, func(in ssa.Instruction) {
			bo, ok := in.(*ssa.BinOp)
			if !ok || bo.Op != token.SHL {
				return
			}
			wd := width(bo.Type())
			if wd == 0 {
				return
			}
			if _, isC := bo.Y.(*ssa.Const); isC {
				return // the compiler rejects constant overflow itself
			}
			var cs []int64
			consts(bo.Y, map[ssa.Value]bool{}, 0, &cs)
			if len(cs) == 0 {
				return
			}
			n++
			var worst int64 = -1
			for _, c := range cs {
				if c >= wd && c > worst {
					worst = c
				}
			}
			construct := fmt.Sprintf("shift count fits the %d-bit operand", wd)
			if worst >= 0 {
				r.bad("R13.6", ssaName(fn), construct, w.posOf(bo.Pos()), fmt.Sprintf("the count can be %d (a constant handed in by a call site), which shifts every bit out of the %d-bit value: the member with that number — a dashed delimiter kind — is never in the set, so tags written with a dash are rejected where the same tag without it is accepted", worst, wd))
			} else {
				r.ok("R13.6", ssaName(fn), construct, w.posOf(bo.Pos()), fmt.Sprintf("constants reaching the count: %v", cs), true)
			}
		})
	}
	r.Counts["shifts by a count that receives constants from call sites"] = n
}

// checkTwinKindsAdvanceAlike — R13.7: a dash on a delimiter changes trimming and nothing else.
// Where a switch over a token's Type has separate arms for a delimiter kind and for its _TRIM
// twin, the two arms move the parser's cursor by the same number of steps (statements that
// increment or assign tokenIndex), counting an arm that falls through as the arm it falls into.
// An arm that accepts `-%}` but does not step over it leaves the closing delimiter in front of
// the next construct: the tag parses without the dash and fails (or swallows something) with it.
func checkTwinKindsAdvanceAlike(w *World, r *Report) {
	n := 0
	steps := func(body []ast.Stmt) (int, bool) {
		cnt := 0
		ft := false
		for _, st := range body {
			if b, ok := st.(*ast.BranchStmt); ok && b.Tok == token.FALLTHROUGH {
				ft = true
			}
			ast.Inspect(st, func(m ast.Node) bool {
				switch x := m.(type) {
				case *ast.FuncLit:
					return false
				case *ast.IncDecStmt:
					if sel, ok := x.X.(*ast.SelectorExpr); ok && sel.Sel.Name == "tokenIndex" {
						cnt++
					}
				case *ast.AssignStmt:
					for _, l := range x.Lhs {
						if sel, ok := l.(*ast.SelectorExpr); ok && sel.Sel.Name == "tokenIndex" {
							cnt++
						}
					}
				}
				return true
			})
		}
		return cnt, ft
	}
	for _, fd := range w.sortedDecls() {
		ast.Inspect(fd.Body, func(nd ast.Node) bool {
			sw, ok := nd.(*ast.SwitchStmt)
			if !ok || sw.Tag == nil {
				return true
			}
			// the tag is <something>.Type (possibly via the init statement's variable)
			tagSel, ok := ast.Unparen(sw.Tag).(*ast.SelectorExpr)
			if !ok || tagSel.Sel.Name != "Type" {
				return true
			}
			// arms by constant name
			type arm struct {
				idx int
				cc  *ast.CaseClause
			}
			arms := map[string]arm{}
			var clauses []*ast.CaseClause
			for _, st := range sw.Body.List {
				cc := st.(*ast.CaseClause)
				clauses = append(clauses, cc)
				for _, e := range cc.List {
					if id, ok := ast.Unparen(e).(*ast.Ident); ok {
						if c, ok := w.Info.Uses[id].(*types.Const); ok && strings.HasPrefix(c.Name(), "TOKEN_") {
							arms[c.Name()] = arm{len(clauses) - 1, cc}
						}
					}
				}
			}
			effective := func(i int) int {
				for ; i < len(clauses); i++ {
					c, ft := steps(clauses[i].Body)
					if !ft {
						return c
					}
					if c > 0 {
						return c + func() int { c2, _ := steps(clauses[i+1].Body); return c2 }()
					}
				}
				return 0
			}
			for name, a := range arms {
				if !strings.HasSuffix(name, "_TRIM") {
					continue
				}
				twin, ok := arms[strings.TrimSuffix(name, "_TRIM")]
				if !ok || twin.cc == a.cc {
					continue
				}
				n++
				ca, cb := effective(a.idx), effective(twin.idx)
				construct := "arms for " + strings.TrimSuffix(name, "_TRIM") + " and " + name + " move the cursor alike"
				if ca == cb {
					r.ok("R13.7", w.declName(fd), construct, w.pos(a.cc), fmt.Sprintf("%d step(s) each", ca), true)
				} else {
					r.bad("R13.7", w.declName(fd), construct, w.pos(a.cc), fmt.Sprintf("the arm for %s moves the cursor %d time(s), the arm for its twin %d time(s): with the dash the closing delimiter is not stepped over (or is stepped over twice), so the tag is read differently with and without whitespace control", name, ca, cb))
				}
			}
			return true
		})
	}
	r.Counts["switches with separate arms for a delimiter and its trimming twin"] = n
}

// checkOnlyTheTokenizerFindsTags — R13.8: block tags are found by the tokenizer.  No function
// other than a method of the tokenizer searches text for the block or comment opener ("{%", "{#"
// as the needle of a strings/bytes search, split or cut).  A second, hand-made reading of the
// source ("the tag name is the first word after {%") does not know the whitespace-control dash,
// comments, verbatim bodies or string literals: `{%- for` is read as a tag called "-".
func checkOnlyTheTokenizerFindsTags(w *World, r *Report) {
	tokT := w.named("ZeroAllocTokenizer")
	n := 0
	for _, fn := range w.pkgFuncs() {
		isTok := fn.Signature.Recv() != nil && types.Identical(deref(fn.Signature.Recv().Type()), tokT)
		instrsOf(fn, func(in ssa.Instruction) {
			c, ok := in.(*ssa.Call)
			if !ok {
				return
			}
			g := c.Call.StaticCallee()
			if g == nil || g.Pkg == nil || (g.Pkg.Pkg.Path() != "strings" && g.Pkg.Pkg.Path() != "bytes") {
				return
			}
			switch {
			case strings.HasPrefix(g.Name(), "Index"), strings.HasPrefix(g.Name(), "LastIndex"), strings.HasPrefix(g.Name(), "Contains"),
				strings.HasPrefix(g.Name(), "Split"), strings.HasPrefix(g.Name(), "Cut"), g.Name() == "Count", strings.HasPrefix(g.Name(), "HasPrefix"):
			default:
				return
			}
			needle := ""
			for _, a := range c.Call.Args[1:] {
				if s, ok := constString(a); ok && (strings.Contains(s, "{%") || strings.Contains(s, "{#")) {
					needle = s
				}
			}
			if needle == "" {
				return
			}
			n++
			construct := fmt.Sprintf("search for %q", needle)
			if isTok {
				r.ok("R13.8", ssaName(fn), construct, w.posOf(in.Pos()), "a method of the tokenizer", false)
			} else {
				r.bad("R13.8", ssaName(fn), construct, w.posOf(in.Pos()), "tags are looked for in the source outside the tokenizer: this second reading does not treat `{%-` (the dash), comments, verbatim bodies and string literals the way the tokenizer does, so a tag written with whitespace control is taken for a different tag")
			}
		})
	}
	r.Counts["searches for tag openers"] = n
}

// checkKindTablesCoverAllKinds — R13.9: a table indexed by a token's kind has an entry for every
// kind.  Where an array (a fixed-size table) is indexed by a value read from Token.Type, its length
// exceeds the largest TOKEN_ constant: a table written out for the undashed kinds only makes the
// parser panic (index out of range) the first time a `-}}` or `-%}` token reaches that line, so the
// dash changes whether a template parses.
func checkKindTablesCoverAllKinds(w *World, r *Report) {
	maxKind := int64(-1)
	sc := w.TPkg.Scope()
	for _, nm := range sc.Names() {
		if c, ok := sc.Lookup(nm).(*types.Const); ok && strings.HasPrefix(nm, "TOKEN_") && c.Val().Kind() == constant.Int {
			if v, ok := constant.Int64Val(c.Val()); ok && v > maxKind {
				maxKind = v
			}
		}
	}
	n := 0
	for _, fn := range w.pkgFuncs() {
		instrsOf(fn, func(in ssa.Instruction) {
			var x, idx ssa.Value
			switch y := in.(type) {
			case *ssa.IndexAddr:
				x, idx = y.X, y.Index
			case *ssa.Index:
				x, idx = y.X, y.Index
			default:
				return
			}
			var arr *types.Array
			switch t := x.Type().Underlying().(type) {
			case *types.Array:
				arr = t
			case *types.Pointer:
				arr, _ = t.Elem().Underlying().(*types.Array)
			}
			if arr == nil {
				return
			}
			isKind := false
			for _, o := range originChain(idx) {
				if _, ok := fieldLoad(o, "Token", "Type"); ok {
					isKind = true
				}
				if fl, ok := o.(*ssa.Field); ok && isNamed(fl.X.Type(), twigPath, "Token") {
					if st, ok := fl.X.Type().Underlying().(*types.Struct); ok && st.Field(fl.Field).Name() == "Type" {
						isKind = true
					}
				}
			}
			if !isKind {
				return
			}
			n++
			construct := fmt.Sprintf("table of %d entries indexed by a token kind", arr.Len())
			if arr.Len() > maxKind {
				r.ok("R13.9", ssaName(fn), construct, w.posOf(in.Pos()), fmt.Sprintf("covers every kind (largest is %d)", maxKind), true)
			} else {
				r.bad("R13.9", ssaName(fn), construct, w.posOf(in.Pos()), fmt.Sprintf("the largest token kind is %d: a token of one of the kinds beyond the table (the whitespace-control delimiters are declared last) makes this index panic, so a template parses without the dash and crashes the parser with it", maxKind))
			}
		})
	}
	r.Counts["arrays indexed by a token kind"] = n
}
