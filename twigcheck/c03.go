package main

// C03 — output is a deterministic function of templates and context.
//
// R03.1 every iteration over a Go map (range over a map, range/index over reflect MapKeys(),
//       MapRange) in a function reachable from render roots is free of order-dependent
//       effects: no output written, no unsorted collection, no accumulation, no "first entry
//       wins".
// R03.2 other sources of nondeterminism (time.Now, math/rand, %p, goroutines/select) on render
//       paths lie in the frozen table of constructs that are exempt by definition.

import (
	"fmt"
	"go/ast"
	"go/token"
	"go/types"
	"sort"
	"strings"

	"golang.org/x/tools/go/ssa"
)

func init() { register("C03", checkC03) }

type mapLoop struct {
	fd    *ast.FuncDecl
	stmt  ast.Stmt // the loop statement
	body  *ast.BlockStmt
	kind  string       // "range map", "range MapKeys()", "range <keys from MapKeys>", "MapRange"
	key   types.Object // loop key variable (may be nil)
	val   types.Object // loop value variable (may be nil)
	over  string       // printable operand
	keysV types.Object // for loops over a variable holding MapKeys(): that variable
}

func isMapType(t types.Type) bool {
	if t == nil {
		return false
	}
	_, ok := t.Underlying().(*types.Map)
	return ok
}

func (w *World) isReflectCall(e ast.Expr, method string) bool {
	c, ok := ast.Unparen(e).(*ast.CallExpr)
	if !ok {
		return false
	}
	return w.calleeIs(c, "reflect", "Value", method)
}

func identObj(w *World, e ast.Expr) types.Object {
	if id, ok := ast.Unparen(e).(*ast.Ident); ok {
		if o := w.Info.Defs[id]; o != nil {
			return o
		}
		return w.Info.Uses[id]
	}
	return nil
}

// sortCallOn: is stmt a call that sorts the slice variable v (sort.Strings/Ints/Float64s/
// Slice/SliceStable/Sort/Stable, slices.Sort*, or a package function that sorts its parameter)?
func (w *World) sortCallOn(n ast.Node, v types.Object) bool {
	found := false
	ast.Inspect(n, func(m ast.Node) bool {
		c, ok := m.(*ast.CallExpr)
		if !ok || len(c.Args) == 0 {
			return true
		}
		if identObj(w, c.Args[0]) != v {
			// sort.Sort(sort.StringSlice(v))
			if inner, ok := ast.Unparen(c.Args[0]).(*ast.CallExpr); ok && len(inner.Args) == 1 && identObj(w, inner.Args[0]) == v {
				// fallthrough to callee test
			} else {
				return true
			}
		}
		f := w.callee(c)
		if f == nil || f.Pkg() == nil {
			return true
		}
		switch f.Pkg().Path() {
		case "sort":
			switch f.Name() {
			case "Strings", "Ints", "Float64s", "Slice", "SliceStable", "Sort", "Stable":
				found = true
			}
		case "slices":
			if strings.HasPrefix(f.Name(), "Sort") {
				found = true
			}
		case twigPath:
			// sort wrapper: a package function that sorts its first parameter
			if d := w.decls[f]; d != nil && d.Body != nil && d.Type.Params != nil && len(d.Type.Params.List) > 0 && len(d.Type.Params.List[0].Names) > 0 {
				p := w.Info.Defs[d.Type.Params.List[0].Names[0]]
				if p != nil && f != w.Info.Defs[w.enclosingFunc(c).Name] && w.sortCallOn(d.Body, p) {
					found = true
				}
			}
		}
		return true
	})
	return found
}

func (w *World) mapLoops(fd *ast.FuncDecl) []*mapLoop {
	var out []*mapLoop
	// variables holding MapKeys() results
	keysVars := map[types.Object]ast.Node{}
	ast.Inspect(fd.Body, func(n ast.Node) bool {
		as, ok := n.(*ast.AssignStmt)
		if !ok || len(as.Lhs) != len(as.Rhs) {
			return true
		}
		for i, rhs := range as.Rhs {
			if w.isReflectCall(rhs, "MapKeys") {
				if o := identObj(w, as.Lhs[i]); o != nil {
					keysVars[o] = as
				}
			}
		}
		return true
	})
	ast.Inspect(fd.Body, func(n ast.Node) bool {
		switch x := n.(type) {
		case *ast.RangeStmt:
			ml := &mapLoop{fd: fd, stmt: x, body: x.Body, over: types.ExprString(x.X)}
			if x.Key != nil {
				ml.key = identObj(w, x.Key)
			}
			if x.Value != nil {
				ml.val = identObj(w, x.Value)
			}
			switch {
			case isMapType(w.Info.TypeOf(x.X)):
				ml.kind = "range over map"
			case w.isReflectCall(x.X, "MapKeys"):
				ml.kind = "range over MapKeys()"
			default:
				if o := identObj(w, x.X); o != nil && keysVars[o] != nil {
					ml.kind = "range over MapKeys() result"
					ml.keysV = o
				} else {
					return true
				}
			}
			out = append(out, ml)
		case *ast.ForStmt:
			// for i := 0; i < len(keys); i++ { … keys[i] … }  or  for iter.Next() { … }
			if x.Cond != nil && w.isReflectCall(x.Cond, "Next") {
				if c, ok := ast.Unparen(x.Cond).(*ast.CallExpr); ok {
					if sel, ok := c.Fun.(*ast.SelectorExpr); ok && isNamed(w.Info.TypeOf(sel.X), "reflect", "MapIter") {
						out = append(out, &mapLoop{fd: fd, stmt: x, body: x.Body, kind: "MapRange iteration", over: types.ExprString(sel.X)})
					}
				}
				return true
			}
			var kv types.Object
			ast.Inspect(x.Body, func(m ast.Node) bool {
				if ix, ok := m.(*ast.IndexExpr); ok {
					if o := identObj(w, ix.X); o != nil && keysVars[o] != nil {
						kv = o
					}
				}
				return true
			})
			if kv != nil {
				out = append(out, &mapLoop{fd: fd, stmt: x, body: x.Body, kind: "index loop over MapKeys() result", over: kv.Name(), keysV: kv})
			}
		}
		return true
	})
	return out
}

// declaredIn: is obj declared inside node n?
func declaredIn(obj types.Object, n ast.Node) bool {
	return obj != nil && obj.Pos() >= n.Pos() && obj.Pos() < n.End()
}

func (w *World) mentions(e ast.Node, objs ...types.Object) bool {
	found := false
	ast.Inspect(e, func(n ast.Node) bool {
		if id, ok := n.(*ast.Ident); ok {
			o := w.Info.Uses[id]
			for _, x := range objs {
				if x != nil && o == x {
					found = true
				}
			}
		}
		return true
	})
	return found
}

// isOutputSink: the type can carry rendered output in order.
func isOutputSink(t types.Type) bool {
	if t == nil {
		return false
	}
	return isNamed(t, "io", "Writer") || isNamed(t, "bytes", "Buffer") || isNamed(t, "strings", "Builder") ||
		isNamed(t, twigPath, "Buffer") || isNamed(t, twigPath, "StringBuffer") || isNamed(t, "io", "StringWriter")
}

// orderDependentEffects lists the effects of a map-ordered loop body whose result depends on
// the iteration order.
func (w *World) orderDependentEffects(ml *mapLoop) []string {
	var eff []string
	loopVars := []types.Object{ml.key, ml.val}
	// locals that (transitively) derive from the loop variables inside the body
	derived := map[types.Object]bool{}
	for _, v := range loopVars {
		if v != nil {
			derived[v] = true
		}
	}
	if ml.keysV != nil {
		derived[ml.keysV] = true
	}
	for changed := true; changed; {
		changed = false
		ast.Inspect(ml.body, func(n ast.Node) bool {
			as, ok := n.(*ast.AssignStmt)
			if !ok {
				return true
			}
			for i, lhs := range as.Lhs {
				o := identObj(w, lhs)
				if o == nil || derived[o] || !declaredIn(o, ml.body) {
					continue
				}
				var rhs ast.Node = as
				if len(as.Rhs) == len(as.Lhs) {
					rhs = as.Rhs[i]
				}
				var ds []types.Object
				for d := range derived {
					ds = append(ds, d)
				}
				if w.mentions(rhs, ds...) {
					derived[o] = true
					changed = true
				}
			}
			return true
		})
	}
	var derivedList []types.Object
	for d := range derived {
		derivedList = append(derivedList, d)
	}
	// locals computed by evaluating the loop KEY as a template expression
	evalDerived := map[types.Object]bool{}
	evalFn := w.method("RenderContext", "EvaluateExpression")
	for changed := true; changed; {
		changed = false
		ast.Inspect(ml.body, func(n ast.Node) bool {
			as, ok := n.(*ast.AssignStmt)
			if !ok || len(as.Rhs) != 1 {
				return true
			}
			o := identObj(w, as.Lhs[0])
			if o == nil || evalDerived[o] || !declaredIn(o, ml.body) {
				return true
			}
			var evs []types.Object
			for d := range evalDerived {
				evs = append(evs, d)
			}
			if c, ok := ast.Unparen(as.Rhs[0]).(*ast.CallExpr); ok && w.callee(c) == evalFn && ml.key != nil && len(c.Args) == 1 && w.mentions(c.Args[0], ml.key) {
				evalDerived[o] = true
				changed = true
			} else if len(evs) > 0 && w.mentions(as.Rhs[0], evs...) {
				evalDerived[o] = true
				changed = true
			}
			return true
		})
	}
	// is node n nested (within the loop body) inside an if/switch whose condition mentions a
	// loop-derived variable? (search / min-max / filter patterns are order-independent)
	underLoopCond := func(n ast.Node) bool {
		for p := w.parents[n]; p != nil && p != ml.stmt; p = w.parents[p] {
			switch x := p.(type) {
			case *ast.IfStmt:
				if w.mentions(x.Cond, derivedList...) {
					return true
				}
			case *ast.CaseClause:
				for _, e := range x.List {
					if w.mentions(e, derivedList...) {
						return true
					}
				}
				if sw, ok := w.parents[w.parents[x]].(*ast.SwitchStmt); ok && sw.Tag != nil && w.mentions(sw.Tag, derivedList...) {
					return true
				}
			}
		}
		return false
	}
	ast.Inspect(ml.body, func(n ast.Node) bool {
		switch x := n.(type) {
		case *ast.FuncLit:
			return false
		case *ast.CallExpr:
			// output written in iteration order
			var recvT types.Type
			if sel, ok := x.Fun.(*ast.SelectorExpr); ok {
				if s := w.Info.Selections[sel]; s != nil {
					recvT = s.Recv()
					if isOutputSink(recvT) && !declaredIn(identObj(w, sel.X), ml.body) {
						eff = append(eff, fmt.Sprintf("writes output in iteration order (%s at %s)", types.ExprString(x.Fun), w.pos(x)))
						return true
					}
				}
			}
			for _, a := range x.Args {
				if isOutputSink(w.Info.TypeOf(a)) && !declaredIn(identObj(w, a), ml.body) {
					if _, isLog := x.Fun.(*ast.Ident); isLog && strings.HasPrefix(types.ExprString(x.Fun), "Log") {
						continue
					}
					eff = append(eff, fmt.Sprintf("passes an output writer to %s in iteration order (%s)", types.ExprString(x.Fun), w.pos(x)))
					return true
				}
			}
		case *ast.AssignStmt:
			// obj.field = append(obj.field, …): collected into a field in iteration order
			for i, lhs := range x.Lhs {
				sel, isSel := lhs.(*ast.SelectorExpr)
				if !isSel || i >= len(x.Rhs) {
					continue
				}
				if c, ok := ast.Unparen(x.Rhs[i]).(*ast.CallExpr); ok {
					if id, ok := c.Fun.(*ast.Ident); ok && id.Name == "append" && len(c.Args) > 0 && types.ExprString(c.Args[0]) == types.ExprString(sel) {
						if !declaredIn(identObj(w, sel.X), ml.body) {
							eff = append(eff, fmt.Sprintf("appends to the field %s in iteration order (%s)", types.ExprString(sel), w.pos(x)))
						}
					}
				}
			}
			for i, lhs := range x.Lhs {
				// dst[computedKey] = v where the key is the result of evaluating a template
				// expression: two entries may compute the same key, then iteration order decides
				if ix, ok := lhs.(*ast.IndexExpr); ok && isMapType(w.Info.TypeOf(ix.X)) && !declaredIn(identObj(w, ix.X), ml.body) {
					var evs []types.Object
					for d := range evalDerived {
						evs = append(evs, d)
					}
					if len(evs) > 0 && w.mentions(ix.Index, evs...) {
						eff = append(eff, fmt.Sprintf("stores under a key computed by evaluating the entry's own key expression: entries whose keys evaluate to the same value are resolved by iteration order (%s)", w.pos(x)))
						continue
					}
				}
				// m[k2] = v inside `for k := range m`: entries are added to the map that is being
				// iterated — whether the new entry is visited by the same loop is left open by the
				// language and differs from run to run
				if ix, ok := lhs.(*ast.IndexExpr); ok && isMapType(w.Info.TypeOf(ix.X)) && ml.kind == "range over map" {
					if rs, ok := ml.stmt.(*ast.RangeStmt); ok && types.ExprString(ast.Unparen(ix.X)) == types.ExprString(ast.Unparen(rs.X)) {
						if ko := identObj(w, ix.Index); ko == nil || ko != ml.key {
							eff = append(eff, fmt.Sprintf("adds entries to the map it ranges over: whether the loop also visits them is unspecified and varies between runs (%s)", w.pos(x)))
							continue
						}
					}
				}
				// dst[name] = v where name is a local of the body that is (on some path) taken
				// from another table (`if alias, ok := aliases[k]; ok { name = alias }`): two
				// entries can be translated to the same name, then iteration order decides
				if ix, ok := lhs.(*ast.IndexExpr); ok && isMapType(w.Info.TypeOf(ix.X)) && !declaredIn(identObj(w, ix.X), ml.body) {
					if ko := identObj(w, ix.Index); ko != nil && declaredIn(ko, ml.body) && ko != ml.key {
						if from := w.translatedFrom(ml.body, ko); from != "" {
							eff = append(eff, fmt.Sprintf("stores under a name translated through %s: two entries can be given the same name, and which of them stays is decided by iteration order (%s)", from, w.pos(x)))
							continue
						}
					}
				}
				o := identObj(w, lhs)
				if o == nil || declaredIn(o, ml.body) {
					// stores into maps / fields are keyed: commutative for distinct keys
					continue
				}
				if _, isVar := o.(*types.Var); !isVar {
					continue
				}
				var rhs ast.Expr
				if len(x.Rhs) == len(x.Lhs) {
					rhs = x.Rhs[i]
				} else if len(x.Rhs) == 1 {
					rhs = x.Rhs[0]
				}
				t := o.Type().Underlying()
				numeric := false
				if b, ok := t.(*types.Basic); ok && b.Info()&types.IsNumeric != 0 {
					numeric = true
				}
				if _, isBool := t.(*types.Basic); isBool && t.(*types.Basic).Info()&types.IsBoolean != 0 {
					continue // flags (found = true) are order-independent
				}
				// append to an outer slice: needs collect-then-sort
				if c, ok := ast.Unparen(rhs).(*ast.CallExpr); ok && rhs != nil {
					if id, ok := c.Fun.(*ast.Ident); ok && id.Name == "append" && len(c.Args) > 0 && identObj(w, c.Args[0]) == o {
						if !w.sortedAfter(ml, o) {
							eff = append(eff, fmt.Sprintf("appends to %s in iteration order and %s is not sorted before its next use (%s)", o.Name(), o.Name(), w.pos(x)))
						}
						continue
					}
				}
				if numeric {
					continue // counters / sums
				}
				if x.Tok != token.ASSIGN && x.Tok != token.DEFINE {
					eff = append(eff, fmt.Sprintf("accumulates into %s in iteration order (%s)", o.Name(), w.pos(x)))
					continue
				}
				if rhs != nil && w.mentions(rhs, o) {
					eff = append(eff, fmt.Sprintf("accumulates into %s in iteration order: each iteration transforms the previous result (%s)", o.Name(), w.pos(x)))
					continue
				}
				if rhs != nil && w.mentions(rhs, derivedList...) && !underLoopCond(x) {
					eff = append(eff, fmt.Sprintf("assigns a loop-dependent value to %s unconditionally: the last/first visited entry wins (%s)", o.Name(), w.pos(x)))
				} else if rhs != nil && w.mentions(rhs, derivedList...) {
					// a running minimum/maximum whose "nothing yet" state is a value an entry can
					// have (`best == ""`, `best == 0`): once such an entry has been taken, the
					// next one replaces it whatever it is — which entries follow is map order
					for p := w.parents[ast.Node(x)]; p != nil && p != ast.Node(ml.stmt); p = w.parents[p] {
						ifs, ok := p.(*ast.IfStmt)
						if !ok {
							continue
						}
						sentinel := false
						ast.Inspect(ifs.Cond, func(m ast.Node) bool {
							be, ok := m.(*ast.BinaryExpr)
							if !ok || (be.Op != token.EQL && be.Op != token.NEQ) {
								return true
							}
							for _, pr := range [][2]ast.Expr{{be.X, be.Y}, {be.Y, be.X}} {
								if identObj(w, pr[0]) == o {
									if tv, ok := w.Info.Types[pr[1]]; ok && tv.Value != nil {
										sentinel = true
									}
								}
							}
							return true
						})
						if sentinel {
							eff = append(eff, fmt.Sprintf("keeps a running best in %s and recognises \"nothing found yet\" by comparing it with a constant an entry can equal (%s): after such an entry the next visited one wins", o.Name(), w.pos(ifs)))
							break
						}
					}
				}
			}
		case *ast.ReturnStmt:
			for _, res := range x.Results {
				if !w.mentions(res, derivedList...) {
					continue
				}
				if !underLoopCond(x) {
					eff = append(eff, fmt.Sprintf("returns a value that depends on which entry is visited first (%s)", w.pos(x)))
					break
				}
				if t := w.Info.TypeOf(res); t != nil && types.Identical(t, types.Universe.Lookup("error").Type()) {
					continue // which of several failures is reported is not rendered output
				}
				if !w.underKeyEquality(ml, x, derivedList) {
					eff = append(eff, fmt.Sprintf("returns the first visited entry that passes a test which is not an equality on the key itself: when two entries pass, the order of iteration picks the result (%s)", w.pos(x)))
					break
				}
			}
		}
		return true
	})
	return eff
}

// sortedAfter: after the loop, the slice variable is sorted before any other use: the next
// statement(s) following the loop in the enclosing block that mention the variable must be a
// sort call on it.
func (w *World) sortedAfter(ml *mapLoop, v types.Object) bool {
	// climb to enclosing blocks; look at following statements
	var cur ast.Node = ml.stmt
	for {
		parent := w.parents[cur]
		if parent == nil {
			return false
		}
		var list []ast.Stmt
		switch p := parent.(type) {
		case *ast.BlockStmt:
			list = p.List
		case *ast.CaseClause:
			list = p.Body
		case *ast.FuncDecl, *ast.FuncLit:
			return false
		default:
			cur = parent
			continue
		}
		idx := -1
		for i, s := range list {
			if s == cur {
				idx = i
			}
		}
		for _, s := range list[idx+1:] {
			if !w.mentions(s, v) {
				continue
			}
			return w.sortCallOn(s, v) && isSortStmt(s)
		}
		cur = parent
	}
}

func isSortStmt(s ast.Stmt) bool {
	es, ok := s.(*ast.ExprStmt)
	if !ok {
		return false
	}
	_, ok = es.X.(*ast.CallExpr)
	return ok
}

// sortedBefore: for loops over a variable holding MapKeys(): a sort call on the variable appears
// between its assignment and the loop, in the same or an enclosing block of the loop.
func (w *World) sortedBefore(ml *mapLoop) bool {
	var cur ast.Node = ml.stmt
	for {
		parent := w.parents[cur]
		if parent == nil {
			return false
		}
		var list []ast.Stmt
		switch p := parent.(type) {
		case *ast.BlockStmt:
			list = p.List
		case *ast.CaseClause:
			list = p.Body
		case *ast.FuncDecl, *ast.FuncLit:
			return false
		default:
			cur = parent
			continue
		}
		for _, s := range list {
			if s == cur {
				break
			}
			if isSortStmt(s) && w.sortCallOn(s, ml.keysV) {
				return true
			}
		}
		cur = parent
	}
}

func checkC03(w *World, r *Report) {
	r.Explanation = "Decides the clause 'independent of Go's map iteration order' for every template and context: (R03.1) every iteration over a Go map — range over a map value, range or index loops over reflect.Value.MapKeys(), MapRange — in a function reachable from a render root is either performed over keys that were sorted first, or its body has no order-dependent effect (no output written, nothing appended that is not sorted before its next use, no accumulation of a non-numeric result, no unconditional 'first/last entry wins' assignment or return); (R03.2) calls of time.Now, math/rand, the %p verb and goroutine/select statements on render paths lie in the frozen list of constructs that are time- or randomness-dependent by definition. (R03.3) comparators that order reflect map keys never tie distinct keys (no constant result before the keys themselves were compared, no lossy conversion). Not decided: printing of pointer-bearing user values through %v; cross-process equality. (R03.4) comparators handed to sort.Slice/SliceStable over plain values apply one criterion to every pair (every condition and result relates the same projection of both elements, or tests one element only after that property was found equal for both); R03.1 also covers Engine.Load, the Loader methods and the loader constructors."
	r.Explanation += " Rules added in later rounds: A return inside a map-ordered loop that depends on the visited entry must lie under an equality test on the key itself (error results excepted). A running best in a map-ordered loop does not recognise 'nothing yet' by a constant an entry can equal."
	r.Explanation += " Round 10: (R03.6) output does not depend on pool recycling of containers templates hold."
	r.Explanation += " Round 11: (R03.1) stores under names translated through another table."
	r.Explanation += " Round 12: (R03.3) key comparators do not compare Value.String() of non-string keys."
	r.Explanation += " Round 13: (R03.1) entries are not added to the map a loop ranges over."
	r.RuleText = "obligation = one map-ordered loop (or one nondeterminism source); non-trivial = loops whose body had to be classified (all)"
	r.Trusted = []string{"sort.* / slices.Sort* produce a key-determined order", "call-graph over-approximation for 'reachable from render roots'"}

	// render paths, plus everything the parser can reach: an order that is fixed while the tree
	// is built (and then frozen into the cached template) makes the output differ between two
	// parses of the same source
	reach := map[*ssa.Function]bool{}
	for f := range w.renderOnlyReachable() {
		reach[f] = true
	}
	for f := range w.parseReachable() {
		reach[f] = true
	}
	// … and everything that decides which source a template name denotes: Engine.Load, the
	// methods of the package's Loader implementations and the functions that construct them (a
	// search-path list put in map order at construction time makes name resolution differ from
	// one process to the next)
	loopReach := map[*ssa.Function]bool{}
	for f := range reach {
		loopReach[f] = true
	}
	for f := range w.reachableFrom(w.loaderRoots()) {
		loopReach[f] = true
	}
	nLoops := 0
	for _, fd := range w.sortedDecls() {
		obj := w.Info.Defs[fd.Name].(*types.Func)
		sf := w.ssaFunc(obj)
		inReach := loopReach[sf]
		if !inReach {
			for _, a := range sf.AnonFuncs {
				if loopReach[a] {
					inReach = true
				}
			}
		}
		if !inReach {
			continue
		}
		fname := w.declName(fd)
		for _, ml := range w.mapLoops(fd) {
			nLoops++
			construct := ml.kind + " " + ml.over
			if ml.keysV != nil && w.sortedBefore(ml) {
				r.ok("R03.1", fname, construct, w.pos(ml.stmt), "keys sorted before the loop", true)
				continue
			}
			eff := w.orderDependentEffects(ml)
			if len(eff) > 0 && w.onlyFeedsLogger(obj) {
				r.ok("R03.1", fname, construct, w.pos(ml.stmt), "the function's result is only ever passed to the debug logger (Log*): log text is not render output", true)
				continue
			}
			if len(eff) == 0 {
				r.ok("R03.1", fname, construct, w.pos(ml.stmt), "body has no order-dependent effect (keyed stores, counters, conditional search only)", true)
			} else {
				sort.Strings(eff)
				r.bad("R03.1", fname, construct, w.pos(ml.stmt), "the result depends on Go's map iteration order: "+strings.Join(eff, "; "))
			}
		}
	}
	r.floor("map-ordered loops on render paths", nLoops, 15)

	checkKeyComparators(w, r)
	checkSingleCriterionComparators(w, r)

	// ---- R03.2
	exempt := map[string]string{
		"functionRandom": "random() is randomness-dependent by definition",
		"functionDate":   "date() without argument is the current date by definition",
		"filterDate":     "the 'now' input of the date filter is the current date by definition",
		"StartTrace":     "debug tracing: the time stamps only reach the debug logger and the trace registry, never render output",
	}
	n2 := 0
	for _, fn := range w.pkgFuncs() {
		if !reach[fn] {
			continue
		}
		instrsOf(fn, func(in ssa.Instruction) {
			what := ""
			switch x := in.(type) {
			case *ssa.Go:
				what = "go statement"
			case *ssa.Select:
				if len(x.States) > 1 {
					what = "select statement"
				}
			case ssa.CallInstruction:
				f := calleeFunc(x)
				if f == nil || f.Pkg() == nil {
					return
				}
				switch f.Pkg().Path() {
				case "time":
					if f.Name() == "Now" || f.Name() == "Since" || f.Name() == "Until" {
						what = "time." + f.Name()
					}
				case "math/rand", "math/rand/v2", "crypto/rand":
					what = f.Pkg().Path() + "." + f.Name()
				case "fmt":
					for _, a := range x.Common().Args {
						if s, ok := constString(a); ok && strings.Contains(s, "%p") {
							what = "fmt verb %p"
						}
					}
				}
			}
			if what == "" {
				return
			}
			n2++
			name := ssaName(fn)
			base := name
			if i := strings.Index(base, "$"); i >= 0 {
				base = base[:i]
			}
			if i := strings.LastIndex(base, "."); i >= 0 {
				base = base[i+1:]
			}
			if why, ok := exempt[base]; ok {
				r.except("R03.2", name, what, w.posOf(in.Pos()), why)
				return
			}
			// an unexported helper that only the exempt construct calls is part of it
			if why := w.exemptThroughCallers(fn, exempt, 0, map[*ssa.Function]bool{}); why != "" {
				r.except("R03.2", name, what, w.posOf(in.Pos()), why+" (helper called only from there)")
				return
			}
			// values that never reach output: timestamps of caches / debug traces / load times
			if usedOnlyForBookkeeping(in) {
				r.ok("R03.2", name, what, w.posOf(in.Pos()), "result only stored as a timestamp / compared with timestamps (cache statistics, modification times, debug timing), never formatted into output", true)
				return
			}
			r.bad("R03.2", name, what, w.posOf(in.Pos()), "a time-, randomness- or address-dependent value is produced on a render path outside the constructs that are exempt by definition")
		})
	}
	r.Counts["nondeterminism sources on render paths"] = n2
	// output does not depend on when a pool hands a container out again (garbage collection, what ran in between)
	checkPooledContainersNotData(w, r, "R03.6")
}

// exemptThroughCallers: fn is an unexported function all of whose in-package callers are exempt
// constructs (by base name) or such helpers themselves; returns the common reason.
func (w *World) exemptThroughCallers(fn *ssa.Function, exempt map[string]string, depth int, seen map[*ssa.Function]bool) string {
	if depth > 3 || seen[fn] {
		return ""
	}
	seen[fn] = true
	root := fn
	for root.Parent() != nil {
		root = root.Parent()
	}
	if root.Object() == nil || root.Object().Exported() {
		return ""
	}
	node := w.callgraph().Nodes[root]
	if node == nil || len(node.In) == 0 {
		return ""
	}
	reason := ""
	var callers []*ssa.Function
	for _, e := range node.In {
		c := e.Caller.Func
		if c.Synthetic != "" && c.Package() != root.Package() {
			// a bound-method wrapper (`t.finish` used as a value): what matters is who creates it
			found := false
			for _, g := range w.pkgFuncs() {
				instrsOf(g, func(in ssa.Instruction) {
					if mc, ok := in.(*ssa.MakeClosure); ok && mc.Fn == ssa.Value(c) {
						callers = append(callers, g)
						found = true
					}
				})
			}
			if !found {
				return ""
			}
			continue
		}
		callers = append(callers, c)
	}
	for _, c := range callers {
		if c.Package() != root.Package() {
			return ""
		}
		base := ssaName(c)
		if i := strings.Index(base, "$"); i >= 0 {
			base = base[:i]
		}
		if i := strings.LastIndex(base, "."); i >= 0 {
			base = base[i+1:]
		}
		why, ok := exempt[base]
		if !ok {
			why = w.exemptThroughCallers(c, exempt, depth+1, seen)
		}
		if why == "" || (reason != "" && reason != why) {
			return ""
		}
		reason = why
	}
	return reason
}

// usedOnlyForBookkeeping: the time value is only stored into struct fields / map entries of
// time type, compared, or passed to time methods whose results are compared/logged.
func usedOnlyForBookkeeping(in ssa.Instruction) bool {
	v, ok := in.(ssa.Value)
	if !ok {
		return false
	}
	seen := map[ssa.Value]bool{}
	var walk func(v ssa.Value) bool
	walk = func(v ssa.Value) bool {
		if seen[v] || v.Referrers() == nil {
			return true
		}
		seen[v] = true
		for _, ref := range *v.Referrers() {
			switch x := ref.(type) {
			case *ssa.Store:
				// stored somewhere: fine as long as the location has a time/duration type
				t := deref(x.Addr.Type())
				if !(isNamed(t, "time", "Time") || isNamed(t, "time", "Duration")) {
					if _, isStruct := t.Underlying().(*types.Struct); !isStruct {
						return false
					}
				}
			case *ssa.DebugRef:
			case *ssa.Extract, *ssa.Phi, *ssa.MakeInterface, *ssa.FieldAddr, *ssa.Field, *ssa.UnOp, *ssa.Alloc:
				if val, ok := ref.(ssa.Value); ok && !walk(val) {
					return false
				}
			case *ssa.BinOp:
				// comparisons
			case ssa.CallInstruction:
				f := calleeFunc(x)
				if f == nil || f.Pkg() == nil {
					return false
				}
				if f.Pkg().Path() == "time" {
					switch f.Name() {
					case "After", "Before", "Equal", "Sub", "Since", "UnixNano", "Unix", "IsZero":
						if val, ok := ref.(ssa.Value); ok && !walk(val) {
							return false
						}
						continue
					}
					return false
				}
				if f.Pkg().Path() == twigPath && strings.HasPrefix(f.Name(), "Log") {
					continue
				}
				return false
			case *ssa.MapUpdate, *ssa.Return:
				return false
			default:
				return false
			}
		}
		return true
	}
	return walk(v)
}

// onlyFeedsLogger: every call of f in the package is an argument of a call to one of the
// package's Log* functions, and f is called at least once.
func (w *World) onlyFeedsLogger(f *types.Func) bool {
	n := 0
	ok := true
	for _, file := range w.Files {
		ast.Inspect(file, func(m ast.Node) bool {
			c, isCall := m.(*ast.CallExpr)
			if !isCall || w.callee(c) != f {
				return true
			}
			n++
			par, isParCall := w.parents[c].(*ast.CallExpr)
			if !isParCall {
				ok = false
				return true
			}
			pf := w.callee(par)
			if pf == nil || pf.Pkg() == nil || pf.Pkg().Path() != twigPath || !strings.HasPrefix(pf.Name(), "Log") {
				ok = false
			}
			return true
		})
	}
	return ok && n > 0
}

// loaderRoots: Engine.Load, the Loader / TimestampAwareLoader methods of every type of the
// package that implements Loader, and every package-level function that returns such a type.
func (w *World) loaderRoots() []*ssa.Function {
	_, sp := w.ssa()
	iface, ok := w.named("Loader").Underlying().(*types.Interface)
	if !ok {
		cannotDecide("anchor Loader is not an interface")
	}
	roots := []*ssa.Function{w.ssaFunc(w.method("Engine", "Load"))}
	ifaceMethod := map[string]bool{}
	for i := 0; i < iface.NumMethods(); i++ {
		ifaceMethod[iface.Method(i).Name()] = true
	}
	if ta, ok := w.named("TimestampAwareLoader").Underlying().(*types.Interface); ok {
		for i := 0; i < ta.NumMethods(); i++ {
			ifaceMethod[ta.Method(i).Name()] = true
		}
	}
	isLoader := func(t types.Type) bool {
		if _, isI := t.Underlying().(*types.Interface); isI {
			return false
		}
		return types.Implements(t, iface) || types.Implements(types.NewPointer(t), iface)
	}
	for _, fn := range w.pkgFuncs() {
		if fn.Parent() != nil || fn.Synthetic != "" || fn.Pkg != sp {
			continue
		}
		if recv := fn.Signature.Recv(); recv != nil {
			if isLoader(deref(recv.Type())) && ifaceMethod[fn.Name()] {
				roots = append(roots, fn)
			}
			continue
		}
		res := fn.Signature.Results()
		for i := 0; i < res.Len(); i++ {
			if isLoader(deref(res.At(i).Type())) {
				roots = append(roots, fn)
			}
		}
	}
	return roots
}

// underKeyEquality: statement n sits, inside the loop, in the then-branch of an `if` (or the
// clause of a switch) one of whose conjuncts compares the loop's KEY ITSELF for equality with
// something that does not vary with the iteration.  Map keys are distinct, so at most one entry
// passes; a test on anything computed from the key (its printed form, its lower-cased form, a
// prefix) or on the value can pass for several entries.
func (w *World) underKeyEquality(ml *mapLoop, n ast.Node, derived []types.Object) bool {
	var isRawKey func(e ast.Expr) bool
	isRawKey = func(e ast.Expr) bool {
		e = ast.Unparen(e)
		switch x := e.(type) {
		case *ast.Ident:
			o := w.Info.Uses[x]
			if o == nil {
				return false
			}
			switch ml.kind {
			case "range over map":
				return o == ml.key
			case "range over MapKeys()", "range over MapKeys() result":
				return o == ml.val
			}
		case *ast.IndexExpr:
			if ml.keysV != nil && identObj(w, x.X) == ml.keysV {
				return true
			}
		case *ast.CallExpr:
			sel, ok := x.Fun.(*ast.SelectorExpr)
			if !ok || len(x.Args) != 0 {
				return false
			}
			// reflect.Value.Interface() of the key; MapIter.Key()
			if isNamed(w.Info.TypeOf(sel.X), "reflect", "Value") && sel.Sel.Name == "Interface" {
				return isRawKey(sel.X)
			}
			if isNamed(w.Info.TypeOf(sel.X), "reflect", "MapIter") && sel.Sel.Name == "Key" {
				return true
			}
		}
		return false
	}
	var conjunctOK func(c ast.Expr) bool
	conjunctOK = func(c ast.Expr) bool {
		c = ast.Unparen(c)
		b, ok := c.(*ast.BinaryExpr)
		if !ok {
			return false
		}
		if b.Op == token.LAND {
			return conjunctOK(b.X) || conjunctOK(b.Y)
		}
		if b.Op != token.EQL {
			return false
		}
		if isRawKey(b.X) && !w.mentions(b.Y, derived...) {
			return true
		}
		if isRawKey(b.Y) && !w.mentions(b.X, derived...) {
			return true
		}
		return false
	}
	var child ast.Node = n
	for p := w.parents[n]; p != nil && p != ml.stmt; child, p = p, w.parents[p] {
		switch x := p.(type) {
		case *ast.IfStmt:
			if child == ast.Node(x.Body) && conjunctOK(x.Cond) {
				return true
			}
		case *ast.CaseClause:
			if sw, ok := w.parents[w.parents[x]].(*ast.SwitchStmt); ok && sw.Tag != nil && isRawKey(sw.Tag) {
				okAll := len(x.List) > 0
				for _, e := range x.List {
					if w.mentions(e, derived...) {
						okAll = false
					}
				}
				if okAll {
					return true
				}
			}
		}
	}
	return false
}

// translatedFrom: the local ko is assigned, somewhere in body, a value that was looked up in a
// map (directly, or through the variable of an `x, ok := m[k]` lookup); returns the map's text.
func (w *World) translatedFrom(body *ast.BlockStmt, ko types.Object) string {
	// variables defined by a lookup m[k]
	lookedUp := map[types.Object]string{}
	ast.Inspect(body, func(n ast.Node) bool {
		as, ok := n.(*ast.AssignStmt)
		if !ok || len(as.Rhs) != 1 {
			return true
		}
		if ix, ok := ast.Unparen(as.Rhs[0]).(*ast.IndexExpr); ok && isMapType(w.Info.TypeOf(ix.X)) {
			if o := identObj(w, as.Lhs[0]); o != nil {
				lookedUp[o] = types.ExprString(ix.X)
			}
		}
		return true
	})
	from := ""
	ast.Inspect(body, func(n ast.Node) bool {
		as, ok := n.(*ast.AssignStmt)
		if !ok || from != "" {
			return true
		}
		for i, lhs := range as.Lhs {
			if identObj(w, lhs) != ko || i >= len(as.Rhs) {
				continue
			}
			rhs := ast.Unparen(as.Rhs[i])
			if ix, ok := rhs.(*ast.IndexExpr); ok && isMapType(w.Info.TypeOf(ix.X)) {
				from = types.ExprString(ix.X)
			}
			if o := identObj(w, rhs); o != nil && lookedUp[o] != "" {
				from = lookedUp[o]
			}
		}
		return true
	})
	return from
}
