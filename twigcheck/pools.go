package main

// Discovery of sync.Pool variables, their element types, and their acquire / release sites.

import (
	"go/ast"
	"go/token"
	"go/types"
	"sort"

	"golang.org/x/tools/go/ssa"
)

type poolInfo struct {
	name   string
	global *ssa.Global // nil for pools that are struct fields (BufferPool.pool)
	field  *types.Var  // for field pools
	elem   types.Type  // type returned by New (nil if it cannot be determined)
	gets   []*poolSite
	puts   []*poolSite
}

type poolSite struct {
	fn   *ssa.Function
	call ssa.CallInstruction
	// for gets: the value after the type assertion (nil if the result is used untyped)
	// for puts: the value put (MakeInterface peeled)
	val ssa.Value
}

func isSyncPool(t types.Type) bool { return isNamed(t, "sync", "Pool") }

// pools enumerates every sync.Pool that is a package-level variable or a struct field of the
// package, with the sites that Get from / Put into it.
func (w *World) pools() []*poolInfo {
	_, sp := w.ssa()
	byGlobal := map[*ssa.Global]*poolInfo{}
	byField := map[*types.Var]*poolInfo{}
	var out []*poolInfo
	for _, m := range sp.Members {
		g, ok := m.(*ssa.Global)
		if !ok || !isSyncPool(deref(g.Type())) {
			continue
		}
		p := &poolInfo{name: g.Name(), global: g}
		byGlobal[g] = p
		out = append(out, p)
	}
	// struct fields of type sync.Pool
	sc := w.TPkg.Scope()
	for _, nm := range sc.Names() {
		tn, ok := sc.Lookup(nm).(*types.TypeName)
		if !ok {
			continue
		}
		st, ok := tn.Type().Underlying().(*types.Struct)
		if !ok {
			continue
		}
		for i := 0; i < st.NumFields(); i++ {
			if isSyncPool(st.Field(i).Type()) {
				p := &poolInfo{name: nm + "." + st.Field(i).Name(), field: st.Field(i)}
				byField[st.Field(i)] = p
				out = append(out, p)
			}
		}
	}
	// element types from the New function of the initialiser
	for _, f := range w.Files {
		ast.Inspect(f, func(n ast.Node) bool {
			cl, ok := n.(*ast.CompositeLit)
			if !ok {
				return true
			}
			tv, has := w.Info.Types[cl]
			if !has || !isSyncPool(tv.Type) {
				return true
			}
			var target *poolInfo
			// which pool does this literal initialise?
			switch par := w.parents[cl].(type) {
			case *ast.ValueSpec:
				for i, v := range par.Values {
					if v == cl && i < len(par.Names) {
						if obj, ok := w.Info.Defs[par.Names[i]].(*types.Var); ok {
							for g, p := range byGlobal {
								if g.Object() == obj {
									target = p
								}
							}
						}
					}
				}
			case *ast.KeyValueExpr:
				if id, ok := par.Key.(*ast.Ident); ok {
					if fv, ok := w.Info.Uses[id].(*types.Var); ok {
						target = byField[fv]
					}
				}
			case *ast.AssignStmt:
				for i, v := range par.Rhs {
					if v == cl && i < len(par.Lhs) {
						if id, ok := par.Lhs[i].(*ast.Ident); ok {
							if obj, ok := w.Info.Uses[id].(*types.Var); ok {
								for g, p := range byGlobal {
									if g.Object() == obj {
										target = p
									}
								}
							}
						}
					}
				}
			}
			if target == nil {
				return true
			}
			for _, el := range cl.Elts {
				kv, ok := el.(*ast.KeyValueExpr)
				if !ok {
					continue
				}
				if id, ok := kv.Key.(*ast.Ident); !ok || id.Name != "New" {
					continue
				}
				var newBody *ast.BlockStmt
				switch nv := kv.Value.(type) {
				case *ast.FuncLit:
					newBody = nv.Body
				case *ast.Ident, *ast.SelectorExpr:
					// New: namedConstructor
					var id *ast.Ident
					if i, ok := nv.(*ast.Ident); ok {
						id = i
					} else {
						id = nv.(*ast.SelectorExpr).Sel
					}
					if f, ok := w.Info.Uses[id].(*types.Func); ok {
						if d := w.decls[f]; d != nil {
							newBody = d.Body
						}
					}
				}
				// New: newPooled[T] — an instantiation of a generic constructor of the package
				if ix, ok := kv.Value.(*ast.IndexExpr); ok {
					if id, ok := ix.X.(*ast.Ident); ok {
						if f, ok := w.Info.Uses[id].(*types.Func); ok {
							if d := w.decls[f]; d != nil {
								inst := w.Info.Instances[id]
								ast.Inspect(d.Body, func(m ast.Node) bool {
									if ret, ok := m.(*ast.ReturnStmt); ok && len(ret.Results) == 1 && target.elem == nil {
										t := w.Info.TypeOf(ret.Results[0])
										if pt, ok := t.(*types.Pointer); ok {
											if tp, ok := pt.Elem().(*types.TypeParam); ok && inst.TypeArgs != nil && tp.Index() < inst.TypeArgs.Len() {
												target.elem = types.NewPointer(inst.TypeArgs.At(tp.Index()))
											}
										}
									}
									return true
								})
							}
						}
					}
					continue
				}
				if newBody == nil {
					continue
				}
				ast.Inspect(newBody, func(m ast.Node) bool {
					if _, isLit := m.(*ast.FuncLit); isLit {
						return false
					}
					if ret, ok := m.(*ast.ReturnStmt); ok && len(ret.Results) == 1 {
						if t := w.Info.TypeOf(ret.Results[0]); t != nil && target.elem == nil {
							target.elem = t
						}
					}
					return true
				})
			}
			return true
		})
	}
	// sites
	for _, fn := range w.pkgFuncs() {
		instrsOf(fn, func(in ssa.Instruction) {
			c, ok := in.(ssa.CallInstruction)
			if !ok {
				return
			}
			f := calleeFunc(c)
			isGet, isPut := isFunc(f, "sync", "Pool", "Get"), isFunc(f, "sync", "Pool", "Put")
			if !isGet && !isPut {
				return
			}
			recv := c.Common().Args[0]
			var p *poolInfo
			if g := globalOf(recv); g != nil {
				p = byGlobal[g]
			} else if fa, ok := recv.(*ssa.FieldAddr); ok {
				st := deref(fa.X.Type()).Underlying().(*types.Struct)
				p = byField[st.Field(fa.Field)]
			}
			if p == nil {
				return
			}
			if isGet {
				site := &poolSite{fn: fn, call: c}
				if v, ok := in.(ssa.Value); ok && v.Referrers() != nil {
					for _, r := range *v.Referrers() {
						if ta, ok := r.(*ssa.TypeAssert); ok {
							site.val = ta
							if ta.CommaOk {
								// v, ok := x.(T): the value is Extract #0
								for _, r2 := range *ta.Referrers() {
									if ex, ok := r2.(*ssa.Extract); ok && ex.Index == 0 {
										site.val = ex
									}
								}
							}
						}
					}
				}
				p.gets = append(p.gets, site)
			} else {
				v := c.Common().Args[1]
				if mi, ok := v.(*ssa.MakeInterface); ok {
					v = mi.X
				}
				p.puts = append(p.puts, &poolSite{fn: fn, call: c, val: v})
			}
		})
	}
	sort.Slice(out, func(i, j int) bool { return out[i].name < out[j].name })
	return out
}

// holdsNodes: the pool's elements are parse-tree objects (a Node implementation, or a slice of
// Nodes / pointer to one).
func (w *World) holdsNodes(p *poolInfo) bool {
	if p.elem == nil {
		return false
	}
	t := p.elem
	if w.implementsNode(t) {
		return true
	}
	t = deref(t)
	if sl, ok := t.Underlying().(*types.Slice); ok {
		return isNamed(sl.Elem(), twigPath, "Node")
	}
	return false
}

// addrPath decomposes a FieldAddr chain: &root.f.g  ->  (root, "f.g").
func addrPath(v ssa.Value) (root ssa.Value, path string, ok bool) {
	fa, isFA := v.(*ssa.FieldAddr)
	if !isFA {
		return v, "", false
	}
	_, name := fieldOfAddr(fa)
	if inner, ipath, iok := addrPath(fa.X); iok {
		return inner, ipath + "." + name, true
	}
	return fa.X, name, true
}

func isZeroValue(v ssa.Value) bool {
	switch x := v.(type) {
	case *ssa.Const:
		if x.Value == nil {
			return true
		}
		switch x.Value.Kind() {
		default:
			return x.Value.ExactString() == "0" || x.Value.ExactString() == `""` || x.Value.ExactString() == "false"
		}
	case *ssa.Slice:
		// s[:0]
		if c, ok := x.High.(*ssa.Const); ok && x.Low == nil && c.Value != nil && c.Value.ExactString() == "0" {
			return true
		}
	}
	return false
}

var _ = token.NoPos
