package main

// thorough tier: placeholder, filled in later (checker self-test on seeded scratch copies).
func thorough(w *World, prop, repo, verif string) int { return 0 }
