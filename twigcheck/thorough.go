package main

// thorough tier = quick, plus
//  1. checker self-test: every recorded mutant of this property (/verif/mutants/<prop>/*.patch and
//     the seeded changes under /verif/seeded/*/ whose meta.json lists this property under
//     "detected_by") is applied to a scratch copy of the CURRENT /repo outside /repo and /verif,
//     must still type-check, and the property's rules must report a violation there.  A mutant that
//     no longer applies is skipped and counted; one that applies and is not reported is a checker
//     failure (exit 2), never a VIOLATION of twig.
//  2. the same rules with GOARCH=386 and with -tags verif (different int width, build-tagged files).
//  3. cross-references that never decide: go vet on the package (printed, counted).

import (
	"encoding/json"
	"fmt"
	"os"
	"os/exec"
	"path/filepath"
	"sort"
	"strings"
	"sync"
)

type seedMeta struct {
	Property   string   `json:"property"`
	DetectedBy []string `json:"detected_by"`
}

type mutantResult struct {
	name   string
	status string // detected | missed | skipped | broken
	detail string
}

func thorough(w *World, prop, repo, verif string) int {
	status := 0
	// ---- 1. self-test
	var patches []string
	ms, _ := filepath.Glob(filepath.Join(verif, "mutants", prop, "*.patch"))
	patches = append(patches, ms...)
	seeds, _ := filepath.Glob(filepath.Join(verif, "seeded", "*", "meta.json"))
	for _, mf := range seeds {
		b, err := os.ReadFile(mf)
		if err != nil {
			continue
		}
		var m seedMeta
		if json.Unmarshal(b, &m) != nil {
			continue
		}
		for _, d := range m.DetectedBy {
			if d == prop {
				patches = append(patches, filepath.Join(filepath.Dir(mf), "patch.diff"))
			}
		}
	}
	sort.Strings(patches)
	results := make([]mutantResult, len(patches))
	sem := make(chan struct{}, 6)
	var wg sync.WaitGroup
	self, _ := os.Executable()
	for i, p := range patches {
		wg.Add(1)
		go func(i int, p string) {
			defer wg.Done()
			sem <- struct{}{}
			defer func() { <-sem }()
			results[i] = runMutant(self, prop, repo, verif, p)
		}(i, p)
	}
	wg.Wait()
	nDet, nSkip := 0, 0
	for _, res := range results {
		switch res.status {
		case "detected":
			nDet++
		case "skipped":
			nSkip++
			fmt.Printf("self-test: %s skipped (%s)\n", res.name, res.detail)
		default:
			fmt.Fprintf(os.Stderr, "CHECKER-SELF-TEST-FAILED property=%s mutant=%s: %s %s\n", prop, res.name, res.status, res.detail)
			status = 2
		}
	}
	fmt.Printf("%s thorough: self-test %d mutants, %d detected, %d skipped\n", prop, len(patches), nDet, nSkip)

	// ---- 1b. behaviour-preserving variants: the refactorings under /verif/refactorings (helper
	// extraction, early returns, if→switch, code moved between files; each passes the test suite)
	// applied to a scratch copy must leave the rules silent.
	refs, _ := filepath.Glob(filepath.Join(verif, "refactorings", "*.diff"))
	sort.Strings(refs)
	rres := make([]mutantResult, len(refs))
	for i, p := range refs {
		wg.Add(1)
		go func(i int, p string) {
			defer wg.Done()
			sem <- struct{}{}
			defer func() { <-sem }()
			rres[i] = runVariantPatch(self, prop, repo, verif, p)
		}(i, p)
	}
	wg.Wait()
	nSilent, nRSkip := 0, 0
	for _, res := range rres {
		switch res.status {
		case "silent":
			nSilent++
		case "skipped":
			nRSkip++
		default:
			fmt.Fprintf(os.Stderr, "CHECKER-SELF-TEST-FAILED property=%s refactoring=%s: %s %s\n", prop, res.name, res.status, res.detail)
			status = 2
		}
	}
	fmt.Printf("%s thorough: %d behaviour-preserving variants, %d silent, %d skipped (no longer apply)\n", prop, len(refs), nSilent, nRSkip)

	// ---- 2. other build configurations
	for _, cfg := range [][2]string{{"", "386"}, {"verif", ""}} {
		st := runVariant(self, prop, repo, verif, cfg[0], cfg[1])
		label := "GOARCH=" + cfg[1]
		if cfg[0] != "" {
			label = "-tags " + cfg[0]
		}
		fmt.Printf("%s thorough: rules under %s: exit %d\n", prop, label, st)
		if st > status {
			status = st
		}
	}

	// ---- 3. cross-reference (never decides)
	cmd := exec.Command("go", "vet", ".")
	cmd.Dir = repo
	cmd.Env = append(os.Environ(), "GOFLAGS=-mod=mod", "GOPROXY=off", "GOWORK=off")
	out, _ := cmd.CombinedOutput()
	n := 0
	for _, l := range strings.Split(string(out), "\n") {
		if strings.Contains(l, ".go:") {
			n++
		}
	}
	fmt.Printf("%s thorough: cross-reference go vet: %d diagnostics (informational)\n", prop, n)

	// append the self-test summary to the evidence file
	evPath := filepath.Join(verif, "evidence", prop+".json")
	if b, err := os.ReadFile(evPath); err == nil {
		var ev map[string]interface{}
		if json.Unmarshal(b, &ev) == nil {
			cov, _ := ev["coverage"].(map[string]interface{})
			if cov != nil {
				var names []string
				for _, res := range results {
					names = append(names, res.name+": "+res.status)
				}
				cov["selftest"] = map[string]interface{}{"mutants": len(patches), "detected": nDet, "skipped": nSkip, "results": names}
				cov["variants"] = []string{"GOARCH=386", "-tags verif"}
				cov["behaviour_preserving_variants"] = map[string]interface{}{"total": len(refs), "silent": nSilent, "skipped": nRSkip}
				nb, _ := json.MarshalIndent(ev, "", " ")
				os.WriteFile(evPath, append(nb, '\n'), 0o644)
			}
		}
	}
	return status
}

func scratchCopy(repo string) (string, error) {
	d, err := os.MkdirTemp("", "twigcheck-")
	if err != nil {
		return "", err
	}
	cmd := exec.Command("rsync", "-a", "--exclude", ".git", repo+"/", d+"/")
	if out, err := cmd.CombinedOutput(); err != nil {
		os.RemoveAll(d)
		return "", fmt.Errorf("rsync: %v %s", err, out)
	}
	return d, nil
}

func runMutant(self, prop, repo, verif, patch string) mutantResult {
	name := filepath.Base(filepath.Dir(patch)) + "/" + filepath.Base(patch)
	d, err := scratchCopy(repo)
	if err != nil {
		return mutantResult{name, "broken", err.Error()}
	}
	defer os.RemoveAll(d)
	cmd := exec.Command("patch", "-p1", "-s", "--no-backup-if-mismatch", "-i", patch)
	cmd.Dir = d
	if out, err := cmd.CombinedOutput(); err != nil {
		return mutantResult{name, "skipped", "patch does not apply to the current tree: " + firstLine(string(out))}
	}
	cmd = exec.Command(self, "-prop", prop, "-tier", "quick", "-repo", d, "-verif", verif, "-no-evidence")
	cmd.Env = append(os.Environ(), "GOCACHE="+filepath.Join(d, ".gocache"))
	out, err := cmd.CombinedOutput()
	code := 0
	if ee, ok := err.(*exec.ExitError); ok {
		code = ee.ExitCode()
	} else if err != nil {
		return mutantResult{name, "broken", err.Error()}
	}
	switch code {
	case 1:
		if strings.Contains(string(out), "VIOLATION property="+prop) {
			return mutantResult{name, "detected", ""}
		}
		return mutantResult{name, "missed", "exit 1 without VIOLATION line"}
	case 0:
		return mutantResult{name, "missed", "the rules reported nothing on the mutated tree"}
	default:
		if strings.Contains(string(out), "load/type errors") || strings.Contains(string(out), "load error") {
			return mutantResult{name, "skipped", "mutant does not type-check on the current tree"}
		}
		return mutantResult{name, "broken", "checker exit " + fmt.Sprint(code) + ": " + firstLine(string(out))}
	}
}

// runVariantPatch: the rules must stay silent on a behaviour-preserving variant.
func runVariantPatch(self, prop, repo, verif, patch string) mutantResult {
	name := filepath.Base(patch)
	d, err := scratchCopy(repo)
	if err != nil {
		return mutantResult{name, "broken", err.Error()}
	}
	defer os.RemoveAll(d)
	cmd := exec.Command("patch", "-p1", "-s", "--no-backup-if-mismatch", "-i", patch)
	cmd.Dir = d
	if out, err := cmd.CombinedOutput(); err != nil {
		return mutantResult{name, "skipped", firstLine(string(out))}
	}
	cmd = exec.Command(self, "-prop", prop, "-tier", "quick", "-repo", d, "-verif", verif, "-no-evidence")
	cmd.Env = append(os.Environ(), "GOCACHE="+filepath.Join(d, ".gocache"))
	out, err := cmd.CombinedOutput()
	if err == nil {
		return mutantResult{name, "silent", ""}
	}
	if ee, ok := err.(*exec.ExitError); ok {
		if strings.Contains(string(out), "load/type errors") || strings.Contains(string(out), "load error") {
			return mutantResult{name, "skipped", "variant does not type-check on the current tree"}
		}
		return mutantResult{name, "false-alarm", fmt.Sprintf("exit %d: %s", ee.ExitCode(), firstLine(lastLines(string(out), 3)))}
	}
	return mutantResult{name, "broken", err.Error()}
}

func lastLines(s string, n int) string {
	ls := strings.Split(strings.TrimSpace(s), "\n")
	if len(ls) > n {
		ls = ls[len(ls)-n:]
	}
	return strings.Join(ls, "\n")
}

func runVariant(self, prop, repo, verif, tags, goarch string) int {
	args := []string{"-prop", prop, "-tier", "quick", "-repo", repo, "-verif", verif, "-no-evidence"}
	if tags != "" {
		args = append(args, "-tags", tags)
	}
	if goarch != "" {
		args = append(args, "-goarch", goarch)
	}
	cmd := exec.Command(self, args...)
	out, err := cmd.CombinedOutput()
	if ee, ok := err.(*exec.ExitError); ok {
		fmt.Print(string(out))
		return ee.ExitCode()
	} else if err != nil {
		fmt.Println(err)
		return 2
	}
	return 0
}

func firstLine(s string) string {
	s = strings.TrimSpace(s)
	if i := strings.Index(s, "\n"); i >= 0 {
		return s[:i]
	}
	return s
}
