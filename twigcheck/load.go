package main

// Loading of /repo's current working tree: go/packages -> go/types -> (lazily) go/ssa and a
// VTA+CHA call graph.  Nothing under /repo is executed.

import (
	"fmt"
	"go/ast"
	"go/constant"
	"go/token"
	"go/types"
	"os"
	"path/filepath"
	"sort"
	"strings"

	"golang.org/x/tools/go/callgraph"
	"golang.org/x/tools/go/callgraph/cha"
	"golang.org/x/tools/go/callgraph/vta"
	"golang.org/x/tools/go/packages"
	"golang.org/x/tools/go/ssa"
	"golang.org/x/tools/go/ssa/ssautil"
	"golang.org/x/tools/go/types/typeutil"
)

const twigPath = "github.com/semihalev/twig"

type World struct {
	tagHandlersMemo map[string]*types.Func
	confinedMemo    map[string]bool
	loadersMemo     map[*ssa.Function]bool
	loadParts       map[*ssa.Function]bool
	entryFuncMemo   map[*ssa.Function][3]interface{}
	Repo            string
	Fset            *token.FileSet
	Pkgs            []*packages.Package
	Pkg             *packages.Package
	Info            *types.Info
	TPkg            *types.Package
	Files           []*ast.File

	decls   map[*types.Func]*ast.FuncDecl
	parents map[ast.Node]ast.Node

	prog  *ssa.Program
	spkg  *ssa.Package
	cg    *callgraph.Graph
	reach map[string]map[*ssa.Function]bool
}

// cannotDecide aborts the run with exit status 2: the checker could not reach a verdict
// (type errors, missing anchors, internal inconsistencies).  It is never exit 0.
type undecided struct{ msg string }

func cannotDecide(format string, args ...interface{}) {
	panic(undecided{fmt.Sprintf(format, args...)})
}

func loadWorld(repo string, tags string, goarch string) *World {
	env := append(os.Environ(), "GOWORK=off", "GOFLAGS=-mod=mod", "GOPROXY=off")
	if goarch != "" {
		env = append(env, "GOARCH="+goarch)
	}
	cfg := &packages.Config{
		Mode:  packages.LoadAllSyntax,
		Dir:   repo,
		Tests: false,
		Env:   env,
	}
	if tags != "" {
		cfg.BuildFlags = []string{"-tags=" + tags}
	}
	pkgs, err := packages.Load(cfg, ".")
	if err != nil {
		cannotDecide("packages.Load: %v", err)
	}
	if len(pkgs) != 1 {
		cannotDecide("expected exactly one root package, got %d", len(pkgs))
	}
	nerr := 0
	packages.Visit(pkgs, nil, func(p *packages.Package) {
		for _, e := range p.Errors {
			fmt.Fprintf(os.Stderr, "load error: %v\n", e)
			nerr++
		}
	})
	if nerr > 0 {
		cannotDecide("%d load/type errors in %s", nerr, repo)
	}
	p := pkgs[0]
	if p.PkgPath != twigPath {
		cannotDecide("root package is %q, expected %q", p.PkgPath, twigPath)
	}
	if len(p.Syntax) < 25 {
		cannotDecide("root package has only %d files (expected >= 25)", len(p.Syntax))
	}
	w := &World{Repo: repo, Fset: p.Fset, Pkgs: pkgs, Pkg: p, Info: p.TypesInfo, TPkg: p.Types, Files: p.Syntax}
	w.index()
	return w
}

func (w *World) index() {
	w.decls = map[*types.Func]*ast.FuncDecl{}
	w.parents = map[ast.Node]ast.Node{}
	for _, f := range w.Files {
		var stack []ast.Node
		ast.Inspect(f, func(n ast.Node) bool {
			if n == nil {
				stack = stack[:len(stack)-1]
				return true
			}
			if len(stack) > 0 {
				w.parents[n] = stack[len(stack)-1]
			}
			stack = append(stack, n)
			return true
		})
		for _, d := range f.Decls {
			if fd, ok := d.(*ast.FuncDecl); ok {
				if obj, ok := w.Info.Defs[fd.Name].(*types.Func); ok {
					w.decls[obj] = fd
				}
			}
		}
	}
}

// ---------------------------------------------------------------- positions / names

func (w *World) pos(n ast.Node) string { return w.posOf(n.Pos()) }

func (w *World) posOf(p token.Pos) string {
	if !p.IsValid() {
		return "?"
	}
	pp := w.Fset.Position(p)
	return fmt.Sprintf("%s:%d", filepath.Base(pp.Filename), pp.Line)
}

func (w *World) fileOf(n ast.Node) string {
	return filepath.Base(w.Fset.Position(n.Pos()).Filename)
}

// funcName gives the line-independent printable name of a declared function: "parseFor",
// "(*RenderContext).ApplyFilter".
func funcName(fn *types.Func) string {
	sig := fn.Type().(*types.Signature)
	if r := sig.Recv(); r != nil {
		t := r.Type()
		ptr := ""
		if p, ok := t.(*types.Pointer); ok {
			t = p.Elem()
			ptr = "*"
		}
		if n, ok := t.(*types.Named); ok {
			return fmt.Sprintf("(%s%s).%s", ptr, n.Obj().Name(), fn.Name())
		}
	}
	return fn.Name()
}

func (w *World) declName(fd *ast.FuncDecl) string {
	if obj, ok := w.Info.Defs[fd.Name].(*types.Func); ok {
		return funcName(obj)
	}
	return fd.Name.Name
}

// enclosingFunc returns the FuncDecl that contains n (nil for package-level nodes).
func (w *World) enclosingFunc(n ast.Node) *ast.FuncDecl {
	for p := n; p != nil; p = w.parents[p] {
		if fd, ok := p.(*ast.FuncDecl); ok {
			return fd
		}
	}
	return nil
}

// sortedDecls returns all function declarations of the package in a stable order.
func (w *World) sortedDecls() []*ast.FuncDecl {
	var out []*ast.FuncDecl
	for _, fd := range w.decls {
		if fd.Body != nil {
			out = append(out, fd)
		}
	}
	sort.Slice(out, func(i, j int) bool {
		a, b := w.Fset.Position(out[i].Pos()), w.Fset.Position(out[j].Pos())
		if a.Filename != b.Filename {
			return a.Filename < b.Filename
		}
		return a.Offset < b.Offset
	})
	return out
}

// ---------------------------------------------------------------- anchors

func (w *World) lookup(name string) types.Object {
	o := w.TPkg.Scope().Lookup(name)
	if o == nil {
		cannotDecide("anchor %q not found in package scope", name)
	}
	return o
}

func (w *World) tryLookup(name string) types.Object { return w.TPkg.Scope().Lookup(name) }

func (w *World) named(name string) *types.Named {
	o, ok := w.lookup(name).(*types.TypeName)
	if !ok {
		cannotDecide("anchor %q is not a type", name)
	}
	n, ok := o.Type().(*types.Named)
	if !ok {
		cannotDecide("anchor %q is not a named type", name)
	}
	return n
}

func (w *World) structOf(name string) *types.Struct {
	s, ok := w.named(name).Underlying().(*types.Struct)
	if !ok {
		cannotDecide("anchor %q is not a struct", name)
	}
	return s
}

func (w *World) field(typ, field string) *types.Var {
	s := w.structOf(typ)
	for i := 0; i < s.NumFields(); i++ {
		if s.Field(i).Name() == field {
			return s.Field(i)
		}
	}
	cannotDecide("anchor field %s.%s not found", typ, field)
	return nil
}

func (w *World) tryField(typ, field string) *types.Var {
	o, ok := w.tryLookup(typ).(*types.TypeName)
	if !ok {
		return nil
	}
	s, ok := o.Type().Underlying().(*types.Struct)
	if !ok {
		return nil
	}
	for i := 0; i < s.NumFields(); i++ {
		if s.Field(i).Name() == field {
			return s.Field(i)
		}
	}
	return nil
}

// fn returns a package-level function by name.
func (w *World) fn(name string) *types.Func {
	f, ok := w.lookup(name).(*types.Func)
	if !ok {
		cannotDecide("anchor %q is not a function", name)
	}
	return f
}

func (w *World) tryFn(name string) *types.Func {
	f, _ := w.tryLookup(name).(*types.Func)
	return f
}

// method returns the method typ.name (pointer or value receiver).
func (w *World) method(typ, name string) *types.Func {
	m := w.tryMethod(typ, name)
	if m == nil {
		cannotDecide("anchor method %s.%s not found", typ, name)
	}
	return m
}

func (w *World) tryMethod(typ, name string) *types.Func {
	o, ok := w.tryLookup(typ).(*types.TypeName)
	if !ok {
		return nil
	}
	n, ok := o.Type().(*types.Named)
	if !ok {
		return nil
	}
	for i := 0; i < n.NumMethods(); i++ {
		if n.Method(i).Name() == name {
			return n.Method(i)
		}
	}
	return nil
}

func (w *World) decl(fn *types.Func) *ast.FuncDecl {
	d := w.decls[fn]
	if d == nil || d.Body == nil {
		cannotDecide("no declaration with body for %s", funcName(fn))
	}
	return d
}

// callee resolves the statically known callee of a call expression (nil for dynamic calls).
func (w *World) callee(c *ast.CallExpr) *types.Func {
	f, _ := typeutil.Callee(w.Info, c).(*types.Func)
	return f
}

// calleeIs reports whether the call's static callee is pkgpath.name (function) or, with recv
// non-empty, the method recv.name of that package.
func (w *World) calleeIs(c *ast.CallExpr, pkg, recv, name string) bool {
	f := w.callee(c)
	return isFunc(f, pkg, recv, name)
}

func isFunc(f *types.Func, pkg, recv, name string) bool {
	if f == nil || f.Name() != name || f.Pkg() == nil || f.Pkg().Path() != pkg {
		return false
	}
	sig := f.Type().(*types.Signature)
	if recv == "" {
		return sig.Recv() == nil
	}
	if sig.Recv() == nil {
		return false
	}
	t := sig.Recv().Type()
	if p, ok := t.(*types.Pointer); ok {
		t = p.Elem()
	}
	n, ok := t.(*types.Named)
	return ok && n.Obj().Name() == recv
}

func (w *World) implementsNode(t types.Type) bool {
	iface, ok := w.named("Node").Underlying().(*types.Interface)
	if !ok {
		cannotDecide("anchor Node is not an interface")
	}
	return types.Implements(t, iface)
}

// nodeStructs lists the named struct types T of the package such that *T implements Node.
func (w *World) nodeStructs() []*types.Named {
	var out []*types.Named
	sc := w.TPkg.Scope()
	for _, nm := range sc.Names() {
		tn, ok := sc.Lookup(nm).(*types.TypeName)
		if !ok {
			continue
		}
		n, ok := tn.Type().(*types.Named)
		if !ok {
			continue
		}
		if _, ok := n.Underlying().(*types.Struct); !ok {
			continue
		}
		if w.implementsNode(types.NewPointer(n)) {
			out = append(out, n)
		}
	}
	return out
}

func isNamed(t types.Type, pkg, name string) bool {
	if p, ok := t.(*types.Pointer); ok {
		t = p.Elem()
	}
	n, ok := t.(*types.Named)
	if !ok || n.Obj().Pkg() == nil {
		return false
	}
	return n.Obj().Pkg().Path() == pkg && n.Obj().Name() == name
}

func deref(t types.Type) types.Type {
	if p, ok := t.Underlying().(*types.Pointer); ok {
		return p.Elem()
	}
	return t
}

// ---------------------------------------------------------------- SSA + call graph

func (w *World) ssa() (*ssa.Program, *ssa.Package) {
	if w.prog != nil {
		return w.prog, w.spkg
	}
	prog, spkgs := ssautil.AllPackages(w.Pkgs, ssa.InstantiateGenerics)
	prog.Build()
	if len(spkgs) != 1 || spkgs[0] == nil {
		cannotDecide("SSA construction failed")
	}
	w.prog, w.spkg = prog, spkgs[0]
	return w.prog, w.spkg
}

// ssaFunc returns the SSA function of a declared function or method.
func (w *World) ssaFunc(fn *types.Func) *ssa.Function {
	prog, _ := w.ssa()
	f := prog.FuncValue(fn)
	if f == nil {
		cannotDecide("no SSA function for %s", funcName(fn))
	}
	return f
}

// pkgFuncs lists every SSA function (including anonymous ones) whose source lies in the package.
func (w *World) pkgFuncs() []*ssa.Function {
	prog, sp := w.ssa()
	var out []*ssa.Function
	for fn := range ssautil.AllFunctions(prog) {
		if fn.Blocks == nil {
			continue
		}
		if fn.Synthetic != "" {
			// instantiations of the package's own generic functions are its code too (and the
			// function literals inside them); every other synthetic function (wrappers, thunks) is not
			root := fn
			for root.Parent() != nil {
				root = root.Parent()
			}
			if o := root.Origin(); o == nil || o == root || o.Package() != sp || len(root.TypeArgs()) == 0 {
				continue
			}
			out = append(out, fn)
			continue
		}
		if fn.TypeParams() != nil && fn.TypeParams().Len() > 0 && len(fn.TypeArgs()) == 0 {
			continue // the generic template itself: its instantiations are analysed
		}
		if fn.Package() == sp {
			out = append(out, fn)
		}
	}
	sort.Slice(out, func(i, j int) bool {
		if out[i].Pos() != out[j].Pos() {
			return out[i].Pos() < out[j].Pos()
		}
		return out[i].String() < out[j].String()
	})
	return out
}

// ssaName gives a line-independent name for an SSA function ("parseFor", "(*T).M", "f$1").
func ssaName(fn *ssa.Function) string {
	s := fn.String()
	s = strings.ReplaceAll(s, twigPath+".", "")
	if strings.HasPrefix(s, "init$") {
		// function literals of package-level initialisers: their ordinal changes whenever a
		// literal is added anywhere before them, so it is not part of the stable name
		rest := s[len("init$"):]
		if i := strings.Index(rest, "$"); i >= 0 {
			return "init$lit" + rest[i:]
		}
		return "init$lit"
	}
	return s
}

func (w *World) callgraph() *callgraph.Graph {
	if w.cg != nil {
		return w.cg
	}
	prog, sp := w.ssa()
	all := ssautil.AllFunctions(prog)
	chaG := cha.CallGraph(prog)
	g := vta.CallGraph(all, chaG)
	// VTA cannot see implementations of the package's own interfaces that are only ever
	// constructed by users (Loader implementations, SecurityPolicy, Extension): add the CHA
	// edges for every invoke on an interface declared in the package.
	own := map[*types.TypeName]bool{}
	for _, nm := range sp.Pkg.Scope().Names() {
		if tn, ok := sp.Pkg.Scope().Lookup(nm).(*types.TypeName); ok {
			if _, ok := tn.Type().Underlying().(*types.Interface); ok {
				own[tn] = true
			}
		}
	}
	for fn, node := range chaG.Nodes {
		if fn == nil || fn.Package() != sp {
			continue
		}
		for _, e := range node.Out {
			if e.Site == nil || !e.Site.Common().IsInvoke() {
				continue
			}
			n, ok := e.Site.Common().Value.Type().(*types.Named)
			if !ok || !own[n.Obj()] {
				continue
			}
			callgraph.AddEdge(g.CreateNode(e.Caller.Func), e.Site, g.CreateNode(e.Callee.Func))
		}
	}
	w.cg = g
	return g
}

// reachableFrom returns the set of functions reachable in the call graph from roots.
func (w *World) reachableFrom(roots []*ssa.Function) map[*ssa.Function]bool {
	g := w.callgraph()
	seen := map[*ssa.Function]bool{}
	var work []*ssa.Function
	for _, r := range roots {
		if r != nil && !seen[r] {
			seen[r] = true
			work = append(work, r)
		}
	}
	for len(work) > 0 {
		f := work[len(work)-1]
		work = work[:len(work)-1]
		n := g.Nodes[f]
		if n == nil {
			continue
		}
		for _, e := range n.Out {
			c := e.Callee.Func
			if c != nil && !seen[c] {
				seen[c] = true
				work = append(work, c)
			}
		}
		// anonymous functions defined in f are reachable once f is (closures may be stored
		// and called later through a func value VTA already tracks; this is the conservative side)
		for _, a := range f.AnonFuncs {
			if !seen[a] {
				seen[a] = true
				work = append(work, a)
			}
		}
	}
	return seen
}

// renderRoots: Render methods of every Node implementation, EvaluateExpression,
// Template.Render/RenderTo, Engine.Render/RenderTo.
func (w *World) renderRoots() []*ssa.Function {
	var roots []*ssa.Function
	for _, n := range w.nodeStructs() {
		if m := w.tryMethod(n.Obj().Name(), "Render"); m != nil {
			roots = append(roots, w.ssaFunc(m))
		}
	}
	for _, a := range [][2]string{{"RenderContext", "EvaluateExpression"}, {"Template", "Render"}, {"Template", "RenderTo"}, {"Engine", "Render"}, {"Engine", "RenderTo"}} {
		roots = append(roots, w.ssaFunc(w.method(a[0], a[1])))
	}
	if len(roots) < 10 {
		cannotDecide("only %d render roots found", len(roots))
	}
	return roots
}

func (w *World) renderReachable() map[*ssa.Function]bool {
	if w.reach == nil {
		w.reach = map[string]map[*ssa.Function]bool{}
	}
	if r, ok := w.reach["render"]; ok {
		return copyReach(r)
	}
	r := w.reachableFrom(w.renderRoots())
	w.reach["render"] = r
	return copyReach(r)
}

// copyReach: callers extend the sets they get (render + parse, render + load …); the cached
// set must stay what its name says, whatever ran before.
func copyReach(m map[*ssa.Function]bool) map[*ssa.Function]bool {
	out := make(map[*ssa.Function]bool, len(m))
	for k, v := range m {
		out[k] = v
	}
	return out
}

func (w *World) parseReachable() map[*ssa.Function]bool {
	if w.reach == nil {
		w.reach = map[string]map[*ssa.Function]bool{}
	}
	if r, ok := w.reach["parse"]; ok {
		return copyReach(r)
	}
	r := w.reachableFrom([]*ssa.Function{w.ssaFunc(w.method("Parser", "Parse"))})
	w.reach["parse"] = r
	return copyReach(r)
}

// inPkg reports whether the SSA function belongs to the twig package.
func (w *World) inPkg(fn *ssa.Function) bool {
	_, sp := w.ssa()
	if fn == nil {
		return false
	}
	if fn.Package() == sp {
		return true
	}
	if o := fn.Origin(); o != nil && o != fn {
		return o.Package() == sp
	}
	return false
}

// isTwigFn: the function belongs to the analysed package — declared there, or an instantiation
// of one of its generic functions.
func isTwigFn(fn *ssa.Function) bool {
	if fn == nil {
		return false
	}
	if fn.Pkg != nil {
		return fn.Pkg.Pkg.Path() == twigPath
	}
	if o := fn.Origin(); o != nil && o != fn && o.Pkg != nil {
		return o.Pkg.Pkg.Path() == twigPath
	}
	if p := fn.Parent(); p != nil {
		return isTwigFn(p)
	}
	return false
}

// pathTo returns one call path root -> ... -> target (names), for reports.
func (w *World) pathTo(roots []*ssa.Function, target *ssa.Function) []string {
	g := w.callgraph()
	prev := map[*ssa.Function]*ssa.Function{}
	seen := map[*ssa.Function]bool{}
	var q []*ssa.Function
	for _, r := range roots {
		if !seen[r] {
			seen[r] = true
			q = append(q, r)
		}
	}
	for len(q) > 0 {
		f := q[0]
		q = q[1:]
		if f == target {
			var path []string
			for x := f; x != nil; x = prev[x] {
				path = append([]string{ssaName(x)}, path...)
			}
			return path
		}
		var next []*ssa.Function
		if n := g.Nodes[f]; n != nil {
			for _, e := range n.Out {
				next = append(next, e.Callee.Func)
			}
		}
		next = append(next, f.AnonFuncs...)
		for _, c := range next {
			if c != nil && !seen[c] {
				seen[c] = true
				prev[c] = f
				q = append(q, c)
			}
		}
	}
	return nil
}

// reachableFromCut is reachableFrom that does not traverse into (or through) the cut functions.
func (w *World) reachableFromCut(roots []*ssa.Function, cut map[*ssa.Function]bool) map[*ssa.Function]bool {
	g := w.callgraph()
	seen := map[*ssa.Function]bool{}
	var work []*ssa.Function
	for _, r := range roots {
		if r != nil && !seen[r] && !cut[r] {
			seen[r] = true
			work = append(work, r)
		}
	}
	for len(work) > 0 {
		f := work[len(work)-1]
		work = work[:len(work)-1]
		var next []*ssa.Function
		if n := g.Nodes[f]; n != nil {
			for _, e := range n.Out {
				next = append(next, e.Callee.Func)
			}
		}
		next = append(next, f.AnonFuncs...)
		for _, c := range next {
			if c != nil && !seen[c] && !cut[c] {
				seen[c] = true
				work = append(work, c)
			}
		}
	}
	return seen
}

// renderOnlyReachable: functions reachable from render roots without entering the parser
// (a render may load and parse another template; what the parser does to the fresh tree it
// is building is not "rendering").
func (w *World) renderOnlyReachable() map[*ssa.Function]bool {
	if w.reach == nil {
		w.reach = map[string]map[*ssa.Function]bool{}
	}
	if r, ok := w.reach["renderonly"]; ok {
		return copyReach(r)
	}
	cut := map[*ssa.Function]bool{w.ssaFunc(w.method("Parser", "Parse")): true}
	r := w.reachableFromCut(w.renderRoots(), cut)
	w.reach["renderonly"] = r
	return copyReach(r)
}

// pathToCut is pathTo that avoids the cut functions.
func (w *World) pathToCut(roots []*ssa.Function, target *ssa.Function, cut map[*ssa.Function]bool) []string {
	g := w.callgraph()
	prev := map[*ssa.Function]*ssa.Function{}
	seen := map[*ssa.Function]bool{}
	var q []*ssa.Function
	for _, r := range roots {
		if !seen[r] && !cut[r] {
			seen[r] = true
			q = append(q, r)
		}
	}
	sort.Slice(q, func(i, j int) bool { return ssaName(q[i]) < ssaName(q[j]) })
	for len(q) > 0 {
		f := q[0]
		q = q[1:]
		if f == target {
			var path []string
			for x := f; x != nil; x = prev[x] {
				path = append([]string{ssaName(x)}, path...)
			}
			return path
		}
		var next []*ssa.Function
		if n := g.Nodes[f]; n != nil {
			for _, e := range n.Out {
				next = append(next, e.Callee.Func)
			}
		}
		next = append(next, f.AnonFuncs...)
		sort.Slice(next, func(i, j int) bool { return ssaName(next[i]) < ssaName(next[j]) })
		for _, c := range next {
			if c != nil && !seen[c] && !cut[c] {
				seen[c] = true
				prev[c] = f
				q = append(q, c)
			}
		}
	}
	return nil
}

// tagHandlers: the block-tag handlers of the parser by tag name, however the table is written —
// a map literal ("if": p.parseIf), assignments into a map (m["if"] = p.parseIf), or a switch
// over the name that returns the method value (case "if": return p.parseIf).  A handler is a
// method value of the package whose receiver is the parser.
func (w *World) tagHandlers() map[string]*types.Func {
	if w.tagHandlersMemo != nil {
		return w.tagHandlersMemo
	}
	out := map[string]*types.Func{}
	handlerOf := func(e ast.Expr) *types.Func {
		sel, ok := ast.Unparen(e).(*ast.SelectorExpr)
		if !ok {
			return nil
		}
		f, ok := w.Info.Uses[sel.Sel].(*types.Func)
		if !ok || f.Pkg() == nil || f.Pkg().Path() != twigPath || w.decls[f] == nil {
			return nil
		}
		sig := f.Type().(*types.Signature)
		if sig.Recv() == nil || !isNamed(deref(sig.Recv().Type()), twigPath, "Parser") {
			return nil
		}
		if sig.Results().Len() != 2 {
			return nil
		}
		return f
	}
	strConst := func(e ast.Expr) (string, bool) {
		if tv, ok := w.Info.Types[e]; ok && tv.Value != nil && tv.Value.Kind() == constant.String {
			return constant.StringVal(tv.Value), true
		}
		return "", false
	}
	for _, d := range w.sortedDecls() {
		ast.Inspect(d.Body, func(n ast.Node) bool {
			switch x := n.(type) {
			case *ast.KeyValueExpr:
				if k, ok := strConst(x.Key); ok {
					if h := handlerOf(x.Value); h != nil {
						out[k] = h
					}
				}
			case *ast.AssignStmt:
				if len(x.Lhs) == 1 && len(x.Rhs) == 1 {
					if ix, ok := x.Lhs[0].(*ast.IndexExpr); ok {
						if k, ok := strConst(ix.Index); ok {
							if h := handlerOf(x.Rhs[0]); h != nil {
								out[k] = h
							}
						}
					}
				}
			case *ast.CaseClause:
				for _, st := range x.Body {
					ret, ok := st.(*ast.ReturnStmt)
					if !ok || len(ret.Results) == 0 {
						continue
					}
					if h := handlerOf(ret.Results[0]); h != nil {
						for _, e := range x.List {
							if k, ok := strConst(e); ok {
								out[k] = h
							}
						}
					}
				}
			}
			return true
		})
	}
	w.tagHandlersMemo = out
	return out
}

// isNodeStruct: name of a struct type of the package whose pointer implements Node
func (w *World) isNodeStruct(name string) bool {
	for _, n := range w.nodeStructs() {
		if n.Obj().Name() == name {
			return true
		}
	}
	return false
}
