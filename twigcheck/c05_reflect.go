package main

// R05.2 — reflection preconditions.  Every call of a reflect.Value / reflect.Type method that
// panics on the wrong kind or on the zero Value, in a function reachable from render roots, is
// dominated by evidence about the very value it is applied to.

import (
	"fmt"
	"go/constant"
	"go/token"
	"go/types"
	"sort"
	"strings"

	"golang.org/x/tools/go/ssa"
)

// reflect.Kind constants by name (values are stable: part of the reflect API).
var kindNames = []string{"Invalid", "Bool", "Int", "Int8", "Int16", "Int32", "Int64", "Uint", "Uint8", "Uint16", "Uint32", "Uint64", "Uintptr", "Float32", "Float64", "Complex64", "Complex128", "Array", "Chan", "Func", "Interface", "Map", "Pointer", "Slice", "String", "Struct", "UnsafePointer"}

func kindSet(names ...string) map[int64]bool {
	m := map[int64]bool{}
	for _, n := range names {
		for i, k := range kindNames {
			if k == n {
				m[int64(i)] = true
			}
		}
	}
	return m
}

var allValidKinds = func() map[int64]bool {
	m := map[int64]bool{}
	for i := 1; i < len(kindNames); i++ {
		m[int64(i)] = true
	}
	return m
}()

// legal kinds per reflect.Value method (nil = only validity is required)
var valueMethodKinds = map[string]map[int64]bool{
	"Len":   kindSet("Array", "Chan", "Map", "Slice", "String"),
	"Cap":   kindSet("Array", "Chan", "Slice"),
	"Index": kindSet("Array", "Slice", "String"),
	// (an Array can be sliced only when it is addressable, which a value obtained from
	// reflect.ValueOf never is: on template data Slice is legal for slices and strings only)
	"Slice":           kindSet("Slice", "String"),
	"Slice3":          kindSet("Slice"),
	"MapKeys":         kindSet("Map"),
	"MapIndex":        kindSet("Map"),
	"MapRange":        kindSet("Map"),
	"SetMapIndex":     kindSet("Map"),
	"Elem":            kindSet("Interface", "Pointer"),
	"IsNil":           kindSet("Chan", "Func", "Interface", "Map", "Pointer", "Slice", "UnsafePointer"),
	"Field":           kindSet("Struct"),
	"NumField":        kindSet("Struct"),
	"FieldByName":     kindSet("Struct"),
	"FieldByIndex":    kindSet("Struct"),
	"FieldByIndexErr": kindSet("Struct"),
	"Int":             kindSet("Int", "Int8", "Int16", "Int32", "Int64"),
	"Uint":            kindSet("Uint", "Uint8", "Uint16", "Uint32", "Uint64", "Uintptr"),
	"Float":           kindSet("Float32", "Float64"),
	"Bool":            kindSet("Bool"),
	"Call":            kindSet("Func"),
	"Type":            allValidKinds,
	"Interface":       allValidKinds,
	"Method":          allValidKinds,
	"NumMethod":       allValidKinds,
	"MethodByName":    allValidKinds,
	"Convert":         allValidKinds,
}

var typeMethodKinds = map[string]map[int64]bool{
	"Elem":     kindSet("Array", "Chan", "Map", "Pointer", "Slice"),
	"Key":      kindSet("Map"),
	"Field":    kindSet("Struct"),
	"NumField": kindSet("Struct"),
	"NumIn":    kindSet("Func"),
	"In":       kindSet("Func"),
	"NumOut":   kindSet("Func"),
	"Out":      kindSet("Func"),
	"Len":      kindSet("Array"),
}

func isReflectValue(t types.Type) bool { return isNamed(t, "reflect", "Value") }
func isReflectType(t types.Type) bool  { return isNamed(t, "reflect", "Type") }

// kindCallOn: if v is `x.Kind()` returns x (a reflect.Value or reflect.Type).
func kindCallOn(v ssa.Value) (ssa.Value, bool) {
	c, ok := v.(*ssa.Call)
	if !ok {
		return nil, false
	}
	if c.Call.IsInvoke() {
		if c.Call.Method.Name() == "Kind" && isReflectType(c.Call.Value.Type()) {
			return c.Call.Value, true
		}
		return nil, false
	}
	f := c.Call.StaticCallee()
	if f != nil && f.Name() == "Kind" && len(c.Call.Args) == 1 && isReflectValue(c.Call.Args[0].Type()) {
		return c.Call.Args[0], true
	}
	return nil, false
}

// typeOfValue: if t is `v.Type()` returns v.
func typeOfValue(t ssa.Value) (ssa.Value, bool) {
	c, ok := t.(*ssa.Call)
	if !ok || c.Call.IsInvoke() {
		return nil, false
	}
	f := c.Call.StaticCallee()
	if f != nil && f.String() == "(reflect.Value).Type" {
		return c.Call.Args[0], true
	}
	return nil, false
}

// sameReflect: the same reflect value, looking through single-store locals.
func sameReflect(a, b ssa.Value) bool {
	a, b = origin(a), origin(b)
	if sameValue(a, b) {
		return true
	}
	// two reflect.ValueOf(x) of the same x
	ca, ok1 := a.(*ssa.Call)
	cb, ok2 := b.(*ssa.Call)
	if ok1 && ok2 {
		fa, fb := ca.Call.StaticCallee(), cb.Call.StaticCallee()
		if fa != nil && fb != nil && fa == fb && (fa.String() == "reflect.ValueOf" || fa.String() == "reflect.TypeOf") {
			return sameValue(ca.Call.Args[0], cb.Call.Args[0])
		}
		// x.Type() of the same x
		if fa != nil && fb != nil && fa == fb && fa.String() == "(reflect.Value).Type" {
			return sameReflect(ca.Call.Args[0], cb.Call.Args[0])
		}
	}
	return false
}

// intrinsicKinds: kinds known from how the value was produced.
// intrinsicKindsMulti extends intrinsicKinds to phis and to locals with several stores: the union
// of the kinds of everything that can be stored; mayBeZero reports that the zero Value (no store
// on some path) is also possible.
func intrinsicKindsMulti(v ssa.Value, seen map[ssa.Value]bool) (kinds map[int64]bool, mayBeZero bool) {
	if seen[v] {
		return map[int64]bool{}, false
	}
	seen[v] = true
	if ik := intrinsicKinds(v); ik != nil {
		return ik, false
	}
	union := map[int64]bool{}
	add := func(x ssa.Value) bool {
		k, z := intrinsicKindsMulti(x, seen)
		if k == nil {
			return false
		}
		for kk := range k {
			union[kk] = true
		}
		if z {
			mayBeZero = true
		}
		return true
	}
	switch x := v.(type) {
	case *ssa.Phi:
		for _, e := range x.Edges {
			if !add(e) {
				return nil, false
			}
		}
		return union, mayBeZero
	case *ssa.UnOp:
		if al, ok := x.X.(*ssa.Alloc); ok && x.Op == token.MUL && al.Referrers() != nil {
			n := 0
			for _, ref := range *al.Referrers() {
				if st, ok := ref.(*ssa.Store); ok && st.Addr == al {
					n++
					if !add(st.Val) {
						return nil, false
					}
				}
			}
			if n == 0 {
				return nil, false
			}
			return union, true // declared with var: the zero Value unless a store happened
		}
	}
	return nil, false
}

func intrinsicKinds(v ssa.Value) map[int64]bool {
	v = unspill(v)
	// the Type field of a reflect.Method is a func type
	if fl, ok := v.(*ssa.Field); ok && isNamed(fl.X.Type(), "reflect", "Method") {
		st := fl.X.Type().Underlying().(*types.Struct)
		if st.Field(fl.Field).Name() == "Type" {
			return kindSet("Func")
		}
	}
	if u, ok := v.(*ssa.UnOp); ok && u.Op == token.MUL {
		if fa, ok := u.X.(*ssa.FieldAddr); ok && isNamed(fa.X.Type(), "reflect", "Method") {
			st := deref(fa.X.Type()).Underlying().(*types.Struct)
			if st.Field(fa.Field).Name() == "Type" {
				return kindSet("Func")
			}
		}
	}
	c, ok := v.(*ssa.Call)
	if !ok {
		return nil
	}
	f := c.Call.StaticCallee()
	if f == nil {
		return nil
	}
	switch f.String() {
	case "reflect.SliceOf":
		return kindSet("Slice")
	case "reflect.MapOf":
		return kindSet("Map")
	case "reflect.PtrTo", "reflect.PointerTo":
		return kindSet("Pointer")
	case "reflect.MakeSlice", "reflect.Append", "reflect.AppendSlice":
		return kindSet("Slice")
	case "reflect.MakeMap", "reflect.MakeMapWithSize":
		return kindSet("Map")
	case "reflect.New":
		return kindSet("Pointer")
	case "(reflect.Value).Method", "(reflect.Value).MethodByName":
		return kindSet("Func")
	case "(reflect.Value).Index", "(reflect.Value).Field", "(reflect.Value).FieldByIndex", "reflect.Zero", "(reflect.Value).Convert", "(reflect.Value).Slice":
		return allValidKinds
	default:
		// a helper of the package: the kinds of everything it can return
		if isTwigFn(f) && len(f.Blocks) > 0 && !inKindSummary[f] && (isReflectValue(c.Type()) || isReflectType(c.Type())) {
			inKindSummary[f] = true
			defer delete(inKindSummary, f)
			union := map[int64]bool{}
			ok := true
			instrsOf(f, func(in ssa.Instruction) {
				ret, isRet := in.(*ssa.Return)
				if !isRet || !ok {
					return
				}
				res := retResults(ret)
				if len(res) != 1 {
					ok = false
					return
				}
				k, z := intrinsicKindsMulti(res[0], map[ssa.Value]bool{})
				if k == nil || z {
					ok = false
					return
				}
				for kk := range k {
					union[kk] = true
				}
			})
			if ok && len(union) > 0 {
				return union
			}
		}
	case "reflect.ValueOf":
		// ValueOf(x) with x of a concrete static type is valid and of that kind
		arg := c.Call.Args[0]
		if mi, ok := arg.(*ssa.MakeInterface); ok {
			switch mi.X.Type().Underlying().(type) {
			case *types.Basic:
				return allValidKinds
			case *types.Slice:
				return kindSet("Slice")
			case *types.Map:
				return kindSet("Map")
			case *types.Struct:
				return kindSet("Struct")
			}
		}
	}
	return nil
}

var inKindSummary = map[*ssa.Function]bool{}

type reflectSite struct {
	in     ssa.Instruction
	recv   ssa.Value
	method string
	legal  map[int64]bool
	onType bool
}

func checkReflect(w *World, r *Report) {
	reach := w.renderOnlyReachable()
	nSites := 0
	perFn := map[string]int{}
	for _, fn := range w.pkgFuncs() {
		if !reach[fn] {
			continue
		}
		var sites []reflectSite
		instrsOf(fn, func(in ssa.Instruction) {
			c, ok := in.(ssa.CallInstruction)
			if !ok {
				return
			}
			cc := c.Common()
			if cc.IsInvoke() {
				if isReflectType(cc.Value.Type()) {
					if legal, ok := typeMethodKinds[cc.Method.Name()]; ok {
						sites = append(sites, reflectSite{in, cc.Value, cc.Method.Name(), legal, true})
					}
				}
				return
			}
			f := cc.StaticCallee()
			if f != nil && f.Pkg != nil && f.Pkg.Pkg.Path() == "reflect" && f.Signature.Recv() == nil && len(cc.Args) > 0 && isReflectType(cc.Args[0].Type()) {
				// constructors that panic on the wrong kind of type
				switch f.Name() {
				case "MakeSlice":
					sites = append(sites, reflectSite{in, cc.Args[0], "MakeSlice(type)", kindSet("Slice"), true})
				case "MakeMap", "MakeMapWithSize":
					sites = append(sites, reflectSite{in, cc.Args[0], f.Name() + "(type)", kindSet("Map"), true})
				}
				return
			}
			if f == nil || f.Pkg == nil || f.Pkg.Pkg.Path() != "reflect" || f.Signature.Recv() == nil || len(cc.Args) == 0 {
				return
			}
			if !isReflectValue(cc.Args[0].Type()) {
				return
			}
			if legal, ok := valueMethodKinds[f.Name()]; ok {
				sites = append(sites, reflectSite{in, cc.Args[0], f.Name(), legal, false})
			}
		})
		for _, s := range sites {
			nSites++
			perFn[ssaName(fn)]++
			kind := "Value"
			if s.onType {
				kind = "Type"
			}
			construct := fmt.Sprintf("reflect.%s.%s", kind, s.method)
			pos := w.posOf(s.in.Pos())
			why := reflectGuarded(fn, s)
			if why == "" {
				why = guardedInParent(fn, s)
			}
			if why == "" {
				why = guardedInCallers(w, fn, s, 0)
			}
			if why == "" {
				why = guardedAsCallbackElement(fn, s)
			}
			if why != "" {
				r.ok("R05.2", ssaName(fn), construct, pos, why, true)
			} else {
				var ks []string
				for k := range s.legal {
					ks = append(ks, kindNames[k])
				}
				sort.Strings(ks)
				need := "kind ∈ {" + strings.Join(ks, ",") + "}"
				if len(s.legal) == len(allValidKinds) {
					need = "a valid (non-zero) Value"
				}
				r.bad("R05.2", ssaName(fn), construct, pos, "the call panics unless its receiver is "+need+", and no test of that very value dominates the call: a context value of another shape (nil, scalar, wrong container) panics here")
			}
		}
	}
	r.floor("kind-sensitive reflect calls on render paths", nSites, 100)
	r.Counts["functions using kind-sensitive reflection"] = len(perFn)

	checkReflectSet(w, r, reach)
	checkMapKeys(w, r, reach)
}

// reflectGuarded returns a non-empty justification if the site's precondition is established.
func reflectGuarded(fn *ssa.Function, s reflectSite) string {
	recv := s.recv
	// which values' kinds speak for the receiver?
	//   Value site: the receiver itself
	//   Type site:  the type itself (t.Kind()) or the Value it was taken from (v.Type())
	subjects := []ssa.Value{recv}
	if s.onType {
		if v, ok := typeOfValue(unspill(recv)); ok {
			subjects = append(subjects, v)
		}
	}
	// kind equality: a dominating `x.Kind() == y.Kind()` lets tests of x speak for y
	for _, b := range fn.Blocks {
		v, trueIdx, ok := ifCond(b)
		if !ok {
			continue
		}
		bo, ok := v.(*ssa.BinOp)
		if !ok || bo.Op != token.EQL {
			continue
		}
		x, ok1 := kindCallOn(bo.X)
		y, ok2 := kindCallOn(bo.Y)
		if !ok1 || !ok2 {
			continue
		}
		t := b.Succs[trueIdx]
		if !(len(t.Preds) == 1 && (t == s.in.Block() || t.Dominates(s.in.Block()))) {
			continue
		}
		if sameReflect(x, recv) {
			subjects = append(subjects, y)
		} else if sameReflect(y, recv) {
			subjects = append(subjects, x)
		}
	}
	needValidOnly := false
	for _, sub := range subjects {
		if ik, z := intrinsicKindsMulti(sub, map[ssa.Value]bool{}); ik != nil && len(ik) > 0 && subset(ik, s.legal) {
			if !z {
				return "kind known from the constructor(s) of the value"
			}
			needValidOnly = true // every stored value has a legal kind; only the zero Value must be excluded
		}
	}
	if needValidOnly {
		vs := s
		vs.legal = allValidKinds
		if why := reflectGuardedFlow(fn, vs, subjects, nil); why != "" {
			return "every value stored into the variable has a legal kind, and " + why
		}
	}
	// validity from a nil test of the argument of ValueOf
	var valueOfArg ssa.Value
	if len(s.legal) == len(allValidKinds) && !s.onType {
		if c, ok := unspill(recv).(*ssa.Call); ok {
			if f := c.Call.StaticCallee(); f != nil && f.String() == "reflect.ValueOf" {
				valueOfArg = c.Call.Args[0]
			}
		}
	}
	// element of MapKeys()/range over a reflect slice etc. are valid
	if len(s.legal) == len(allValidKinds) && !s.onType {
		if validByConstruction(recv, 0) {
			return "valid by construction (element of MapKeys()/Index()/Field() …)"
		}
	}
	if why := reflectGuardedFlow(fn, s, subjects, valueOfArg); why != "" {
		return why
	}
	// a type-switch arm on the ValueOf argument: `case nil` handled elsewhere ⇒ non-nil here
	if valueOfArg != nil && dominatedByNonNilAssert(valueOfArg, s.in) {
		return "the value handed to ValueOf passed a type test that excludes nil"
	}
	return ""
}

func reflectGuardedFlow(fn *ssa.Function, s reflectSite, subjects []ssa.Value, valueOfArg ssa.Value) string {
	// Elem() of x is valid where x.IsNil() is false
	var elemOf ssa.Value
	if c, ok := unspill(s.recv).(*ssa.Call); ok {
		if f := c.Call.StaticCallee(); f != nil && f.String() == "(reflect.Value).Elem" {
			elemOf = c.Call.Args[0]
		}
	}
	fl := &boolFlow{fn: fn, entry: false}
	fl.edge = func(b *ssa.BasicBlock, i int) bool {
		return anyEdgeFact(b, i, func(v ssa.Value, trueIdx int) bool {
			onTrue := i == trueIdx
			switch x := v.(type) {
			case *ssa.BinOp:
				if x.Op != token.EQL && x.Op != token.NEQ {
					return false
				}
				// kind test
				for _, pr := range [][2]ssa.Value{{x.X, x.Y}, {x.Y, x.X}} {
					sub, ok := kindCallOn(pr[0])
					if !ok {
						continue
					}
					c, ok := pr[1].(*ssa.Const)
					if !ok || c.Value == nil || c.Value.Kind() != constant.Int {
						continue
					}
					k, _ := constant.Int64Val(c.Value)
					match := false
					for _, sj := range subjects {
						if sameReflect(sub, sj) {
							match = true
						}
						// a kind test of v.Type() speaks for v
						if tv, ok := typeOfValue(unspill(sub)); ok && sameReflect(tv, sj) {
							match = true
						}
					}
					if !match {
						continue
					}
					isEq := (x.Op == token.EQL) == onTrue // on this edge kind == k
					if isEq {
						return s.legal[k]
					}
					// kind != k on this edge: useful only if that leaves legal kinds only — i.e. never,
					// except for validity: kind != Invalid
					return k == 0 && len(s.legal) == len(allValidKinds)
				}
				// x == nil for the ValueOf argument
				if valueOfArg != nil {
					for _, pr := range [][2]ssa.Value{{x.X, x.Y}, {x.Y, x.X}} {
						if isNilConst(pr[1]) && sameValue(pr[0], valueOfArg) {
							isNil := (x.Op == token.EQL) == onTrue
							return !isNil
						}
					}
				}
			case *ssa.Call:
				// isListKind(v.Kind()): a helper of the package that is a pure predicate over a kind
				if g := x.Call.StaticCallee(); g != nil && len(x.Call.Args) == 1 {
					sub, ok := kindCallOn(x.Call.Args[0])
					if !ok && (isReflectValue(x.Call.Args[0].Type()) || isReflectType(x.Call.Args[0].Type())) && isTwigFn(g) {
						sub, ok = x.Call.Args[0], true // isSequence(v): the helper asks v.Kind() itself
					}
					if ok {
						match := false
						for _, sj := range subjects {
							if sameReflect(sub, sj) {
								match = true
							}
							if tv, ok := typeOfValue(unspill(sub)); ok && sameReflect(tv, sj) {
								match = true
							}
						}
						if match {
							if set, ok := kindPredicateSet(g); ok {
								sel := map[int64]bool{}
								for k := int64(0); k < int64(len(kindNames)); k++ {
									if set[k] == onTrue {
										sel[k] = true
									}
								}
								return len(sel) > 0 && subset(sel, s.legal)
							}
						}
					}
				}
				// x.IsNil() false ⇒ x.Elem() is valid
				if f := x.Call.StaticCallee(); f != nil && f.String() == "(reflect.Value).IsNil" && elemOf != nil && len(s.legal) == len(allValidKinds) {
					if sameReflect(x.Call.Args[0], elemOf) {
						return !onTrue
					}
				}
				// v.IsValid()
				if f := x.Call.StaticCallee(); f != nil && f.String() == "(reflect.Value).IsValid" && len(s.legal) == len(allValidKinds) {
					for _, sj := range subjects {
						if sameReflect(x.Call.Args[0], sj) {
							return onTrue
						}
					}
				}
				// v.CanInterface() implies validity
				if f := x.Call.StaticCallee(); f != nil && f.String() == "(reflect.Value).CanInterface" && len(s.legal) == len(allValidKinds) {
					for _, sj := range subjects {
						if sameReflect(x.Call.Args[0], sj) {
							return onTrue
						}
					}
				}
			}
			return false
		})
	}
	fl.solve()
	if fl.at(s.in) {
		return "dominated by a kind/validity test of the same value"
	}
	return ""
}

func subset(a, b map[int64]bool) bool {
	for k := range a {
		if !b[k] {
			return false
		}
	}
	return true
}

// validByConstruction: results of Index/Field/range over MapKeys/MapIndex with such a key …
func validByConstruction(v ssa.Value, depth int) bool {
	if depth > 4 {
		return false
	}
	v = unspill(v)
	switch x := v.(type) {
	case *ssa.Call:
		f := x.Call.StaticCallee()
		if f == nil {
			return false
		}
		switch f.String() {
		case "(reflect.Value).Index", "(reflect.Value).Field", "reflect.MakeSlice", "reflect.MakeMap", "reflect.New", "reflect.Zero", "reflect.Append", "(reflect.Value).Convert", "(reflect.Value).Slice", "reflect.MakeMapWithSize", "reflect.AppendSlice":
			return true
		case "(reflect.Value).MapIndex":
			// valid if the key is an element of MapKeys() of the same map
			return len(x.Call.Args) == 2 && elementOfMapKeys(x.Call.Args[1], x.Call.Args[0])
		case "(reflect.Value).Elem":
			// Elem() of a valid New() pointer
			return validByConstruction(x.Call.Args[0], depth+1) && subset(intrinsicKinds(x.Call.Args[0]), kindSet("Pointer")) && intrinsicKinds(x.Call.Args[0]) != nil
		}
	case *ssa.UnOp:
		// element loaded from a []reflect.Value produced by MapKeys()
		if ia, ok := x.X.(*ssa.IndexAddr); ok {
			if c, ok := unspill(ia.X).(*ssa.Call); ok {
				if f := c.Call.StaticCallee(); f != nil && (f.String() == "(reflect.Value).MapKeys" || f.String() == "(reflect.Value).Call") {
					return true
				}
			}
			if _, ok := unspill(ia.X).(*ssa.Parameter); ok {
				return false
			}
		}
	case *ssa.Phi:
		for _, e := range x.Edges {
			if !validByConstruction(e, depth+1) {
				return false
			}
		}
		return true
	}
	return false
}

func elementOfMapKeys(key, m ssa.Value) bool {
	key = unspill(key)
	u, ok := key.(*ssa.UnOp)
	if !ok {
		return false
	}
	ia, ok := u.X.(*ssa.IndexAddr)
	if !ok {
		return false
	}
	c, ok := unspill(ia.X).(*ssa.Call)
	if !ok {
		return false
	}
	f := c.Call.StaticCallee()
	return f != nil && f.String() == "(reflect.Value).MapKeys" && sameReflect(c.Call.Args[0], m)
}

// dominatedByNonNilAssert: in is dominated by the success edge of a comma-ok assertion of x, or
// by the failure edges of a type switch that had an explicit nil arm — approximated as: some
// successful two-result assertion of the same value dominates.
func dominatedByNonNilAssert(x ssa.Value, in ssa.Instruction) bool {
	fn := in.Parent()
	for _, b := range fn.Blocks {
		v, trueIdx, ok := ifCond(b)
		if !ok {
			continue
		}
		ex, ok := v.(*ssa.Extract)
		if !ok || ex.Index != 1 {
			continue
		}
		ta, ok := ex.Tuple.(*ssa.TypeAssert)
		if !ok || !sameValue(ta.X, x) {
			continue
		}
		t := b.Succs[trueIdx]
		if len(t.Preds) == 1 && (t == in.Block() || t.Dominates(in.Block())) {
			return true
		}
	}
	return false
}

// checkReflectSet: dst.Set(src) / m.SetMapIndex(k, v): the types must agree by provenance or by
// a dominating AssignableTo / ConvertibleTo test.
func checkReflectSet(w *World, r *Report, reach map[*ssa.Function]bool) {
	n := 0
	for _, fn := range w.pkgFuncs() {
		if !reach[fn] {
			continue
		}
		instrsOf(fn, func(in ssa.Instruction) {
			c, ok := in.(*ssa.Call)
			if !ok {
				return
			}
			f := c.Call.StaticCallee()
			if f == nil {
				return
			}
			full := f.String()
			if full != "(reflect.Value).Set" && full != "(reflect.Value).SetMapIndex" && full != "reflect.Append" {
				return
			}
			n++
			construct := "type agreement of " + strings.TrimPrefix(full, "(reflect.Value).")
			pos := w.posOf(in.Pos())
			dst := c.Call.Args[0]
			srcs := c.Call.Args[1:]
			if full == "reflect.Append" {
				// variadic: the slice of appended values
				srcs = variadicElems(c.Call.Args[1])
			}
			dstCont, dstLvl := containerTypeOriginL(dst, 0, map[ssa.Value]bool{})
			okAll := true
			var whyNot string
			for i, src := range srcs {
				// expected position of the stored value's type relative to the destination's
				want := dstLvl
				switch full {
				case "reflect.Append":
					want = dstLvl + "e"
				case "(reflect.Value).SetMapIndex":
					if i == 0 {
						want = dstLvl + "k"
					} else {
						want = dstLvl + "e"
					}
				}
				if dstCont != nil && want == "" && sameReflect(src, dstCont) {
					continue
				}
				srcCont, srcLvl := containerTypeOriginL(src, 0, map[ssa.Value]bool{})
				if dstCont != nil && srcCont != nil && sameReflect(dstCont, srcCont) && srcLvl == want {
					continue
				}
				if assignableGuard(fn, in) {
					continue
				}
				okAll = false
				whyNot = "the destination's type derives from " + describeOrigin(dstCont) + ", the stored value's from " + describeOrigin(srcCont)
			}
			if okAll {
				r.ok("R05.2", ssaName(fn), construct, pos, "same container-type provenance, or dominated by AssignableTo/ConvertibleTo", true)
			} else {
				r.bad("R05.2", ssaName(fn), construct, pos, "reflect stores a value into a destination of an unrelated type without an AssignableTo test ("+whyNot+"): merging containers of different element types panics")
			}
		})
	}
	r.Counts["reflect Set/SetMapIndex/Append sites"] = n
}

func describeOrigin(v ssa.Value) string {
	if v == nil {
		return "an unknown container"
	}
	return describe(v)
}

func variadicElems(sl ssa.Value) []ssa.Value {
	var out []ssa.Value
	s, ok := sl.(*ssa.Slice)
	if !ok {
		return []ssa.Value{sl}
	}
	al, ok := s.X.(*ssa.Alloc)
	if !ok || al.Referrers() == nil {
		return []ssa.Value{sl}
	}
	for _, ref := range *al.Referrers() {
		if ia, ok := ref.(*ssa.IndexAddr); ok && ia.Referrers() != nil {
			for _, r2 := range *ia.Referrers() {
				if st, ok := r2.(*ssa.Store); ok && st.Addr == ia {
					out = append(out, st.Val)
				}
			}
		}
	}
	return out
}

// containerTypeOrigin: the reflect.Value whose container type determines v's static type:
//
//	MakeSlice(rv.Type()…) → rv ; rv.Index(i) → rv ; rv.MapIndex(k) → rv ; MakeMap(rv.Type()) → rv ;
//	x.Index(i) where x = MakeSlice(rv.Type()) → rv ; key from rv.MapKeys() → rv
func containerTypeOrigin(v ssa.Value, depth int) ssa.Value {
	if depth > 6 {
		return nil
	}
	v = unspill(v)
	switch x := v.(type) {
	case *ssa.Call:
		f := x.Call.StaticCallee()
		if f == nil {
			return nil
		}
		switch f.String() {
		case "reflect.MakeSlice", "reflect.MakeMap", "reflect.MakeMapWithSize":
			if o, ok := typeOfValue(unspill(x.Call.Args[0])); ok {
				return unspill(o)
			}
			return nil
		case "(reflect.Value).Index", "(reflect.Value).MapIndex", "(reflect.Value).Elem", "(reflect.Value).Slice":
			return containerTypeOrigin(x.Call.Args[0], depth+1)
		case "reflect.Append":
			return containerTypeOrigin(x.Call.Args[0], depth+1)
		case "reflect.ValueOf":
			return x
		}
		return nil
	case *ssa.UnOp:
		if ia, ok := x.X.(*ssa.IndexAddr); ok {
			if c, ok := unspill(ia.X).(*ssa.Call); ok {
				if f := c.Call.StaticCallee(); f != nil && f.String() == "(reflect.Value).MapKeys" {
					return containerTypeOrigin(c.Call.Args[0], depth+1)
				}
			}
		}
	case *ssa.Phi:
		var o ssa.Value
		for _, e := range x.Edges {
			eo := containerTypeOrigin(e, depth+1)
			if eo == nil || (o != nil && !sameReflect(o, eo)) {
				return nil
			}
			o = eo
		}
		return o
	}
	return v
}

// assignableGuard: the instruction is dominated by the true edge of an AssignableTo /
// ConvertibleTo call.
func assignableGuard(fn *ssa.Function, in ssa.Instruction) bool {
	fl := &boolFlow{fn: fn, entry: false}
	fl.edge = func(b *ssa.BasicBlock, i int) bool {
		return anyEdgeFact(b, i, func(v ssa.Value, trueIdx int) bool {
			if i != trueIdx {
				return false
			}
			return isAssignableTest(v, 0)
		})
	}
	fl.solve()
	return fl.at(in)
}

// isAssignableTest: the value is true only if an AssignableTo/ConvertibleTo test succeeded: the
// call itself, or a bool helper of the package whose every true result implies such a call.
func isAssignableTest(v ssa.Value, depth int) bool {
	c, ok := v.(*ssa.Call)
	if !ok {
		return false
	}
	if c.Call.IsInvoke() {
		n := c.Call.Method.Name()
		return (n == "AssignableTo" || n == "ConvertibleTo") && isReflectType(c.Call.Value.Type())
	}
	g := c.Call.StaticCallee()
	if g == nil || depth > 2 || !isTwigFn(g) || len(g.Blocks) == 0 {
		return false
	}
	if g.Signature.Results().Len() != 1 || !types.Identical(g.Signature.Results().At(0).Type().Underlying(), types.Typ[types.Bool]) {
		return false
	}
	all, n := true, 0
	instrsOf(g, func(in ssa.Instruction) {
		ret, isRet := in.(*ssa.Return)
		if !isRet {
			return
		}
		n++
		res := retResults(ret)[0]
		if isConstBool(res, false) {
			return
		}
		var facts []condFact
		expandCond(res, true, &facts, 0)
		implied := false
		for _, f := range facts {
			if f.truth && isAssignableTest(f.v, depth+1) {
				implied = true
			}
		}
		if !implied && !assignableGuard(g, in) {
			all = false
		}
	})
	return all && n > 0
}

// guardedInParent: the receiver is a variable captured by a closure; the precondition is
// established in the enclosing function at the point where the closure is created.
func guardedInParent(fn *ssa.Function, s reflectSite) string {
	parent := fn.Parent()
	if parent == nil {
		return ""
	}
	recv := s.recv
	var fv *ssa.FreeVar
	if u, ok := recv.(*ssa.UnOp); ok && u.Op == token.MUL {
		fv, _ = u.X.(*ssa.FreeVar)
	} else {
		fv, _ = recv.(*ssa.FreeVar)
	}
	if fv == nil {
		return ""
	}
	idx := -1
	for i, v := range fn.FreeVars {
		if v == fv {
			idx = i
		}
	}
	if idx < 0 {
		return ""
	}
	var out string
	instrsOf(parent, func(in ssa.Instruction) {
		mc, ok := in.(*ssa.MakeClosure)
		if !ok || mc.Fn != ssa.Value(fn) || idx >= len(mc.Bindings) || out != "" {
			return
		}
		b := mc.Bindings[idx]
		var val ssa.Value = b
		if al, ok := b.(*ssa.Alloc); ok {
			st := singleStore(al)
			if st == nil {
				return
			}
			val = st.Val
		}
		ps := reflectSite{in: in, recv: val, method: s.method, legal: s.legal, onType: s.onType}
		if why := reflectGuarded(parent, ps); why != "" {
			out = "captured value: " + why + " in the enclosing function where the closure is created"
		}
	})
	return out
}

// guardedInCallers: the receiver is (derived from) a parameter of an unexported helper: the
// precondition may be established by every caller before the call (a function split in two).
func guardedInCallers(w *World, fn *ssa.Function, s reflectSite, depth int) string {
	if depth > 2 || fn.Object() == nil || fn.Object().Exported() && fn.Signature.Recv() == nil {
		return ""
	}
	recv := unspill(s.recv)
	viaValueOf := false
	viaType := false
	var p *ssa.Parameter
	field := -1
	if pp, f, ok := paramOrigin(recv); ok {
		p, field = pp, f
	} else if x, ok := recv.(*ssa.Call); ok {
		if f := x.Call.StaticCallee(); f != nil && f.String() == "reflect.ValueOf" && len(s.legal) == len(allValidKinds) && !s.onType {
			if pp, f, ok := paramOrigin(unspill(x.Call.Args[0])); ok {
				p, field, viaValueOf = pp, f, true
			}
		}
		if s.onType {
			if v, ok := typeOfValue(recv); ok {
				if pp, f, ok := paramOrigin(unspill(v)); ok {
					p, field, viaType = pp, f, true
				}
			}
		}
	}
	if p == nil || p.Parent() != fn {
		return ""
	}
	cvs, ok := callerValues(p, field)
	byConstruction := false
	if !ok && field >= 0 {
		// a method reached through an interface (sort.Interface, a callback): the field holds what
		// every construction of the struct put there
		cvs, ok = constructionValues(p.Type(), field)
		byConstruction = ok
	}
	if !ok {
		return ""
	}
	n := 0
	for _, cv := range cvs {
		arg := cv.val
		caller := cv.caller
		var site ssa.Instruction = cv.site
		if cv.site == nil {
			site = cv.at
		}
		n++
		switch {
		case viaValueOf:
			ps := reflectSite{in: site, recv: arg, method: s.method, legal: allValidKinds}
			if reflectGuardedFlow(caller, ps, nil, arg) == "" && !dominatedByNonNilAssert(arg, site) {
				return ""
			}
		case viaType:
			// the type of the parameter Value: a kind test of the argument Value in the caller
			ps := reflectSite{in: site, recv: arg, method: s.method, legal: s.legal, onType: false}
			if reflectGuarded(caller, ps) == "" && guardedInParent(caller, ps) == "" && guardedInCallers(w, caller, ps, depth+1) == "" {
				return ""
			}
		default:
			ps := reflectSite{in: site, recv: arg, method: s.method, legal: s.legal, onType: s.onType}
			if reflectGuarded(caller, ps) == "" && guardedInParent(caller, ps) == "" && guardedInCallers(w, caller, ps, depth+1) == "" {
				return ""
			}
		}
	}
	if n == 0 {
		return ""
	}
	if byConstruction {
		return fmt.Sprintf("field of a struct built in %d place(s): the precondition is established before each construction and the field is never assigned afterwards", n)
	}
	return fmt.Sprintf("parameter of a helper: the precondition is established before the call at each of its %d call site(s)", n)
}

// containerTypeOriginL: like containerTypeOrigin, but also reports at which "level" below the
// origin's type the value's type sits ("" = the origin's own type, "e" = its element type,
// "k" = its key type, "p" = pointer to it); two values agree in type if origin and level agree.
func containerTypeOriginL(v ssa.Value, depth int, seen map[ssa.Value]bool) (ssa.Value, string) {
	if depth > 12 {
		return nil, ""
	}
	v = origin(v)
	switch x := v.(type) {
	case *ssa.Call:
		f := x.Call.StaticCallee()
		if f == nil {
			return nil, ""
		}
		switch f.String() {
		case "reflect.MakeSlice", "reflect.MakeMap", "reflect.MakeMapWithSize":
			if o, ok := typeOfValue(origin(x.Call.Args[0])); ok {
				return origin(o), ""
			}
			// MakeSlice(reflect.SliceOf(V.Type().Elem())): a slice of V's element type
			if so, ok := origin(x.Call.Args[0]).(*ssa.Call); ok {
				if sf := so.Call.StaticCallee(); sf != nil && sf.String() == "reflect.SliceOf" {
					if el, ok := origin(so.Call.Args[0]).(*ssa.Call); ok && el.Call.IsInvoke() && el.Call.Method.Name() == "Elem" {
						if o, ok := typeOfValue(origin(el.Call.Value)); ok {
							return origin(o), ""
						}
					}
				}
			}
			return nil, ""
		case "reflect.New":
			if o, ok := typeOfValue(origin(x.Call.Args[0])); ok {
				return origin(o), "p"
			}
			return nil, ""
		case "(reflect.Value).Index", "(reflect.Value).MapIndex":
			o, l := containerTypeOriginL(x.Call.Args[0], depth+1, seen)
			return o, l + "e"
		case "(reflect.Value).Elem":
			o, l := containerTypeOriginL(x.Call.Args[0], depth+1, seen)
			if strings.HasSuffix(l, "p") {
				return o, strings.TrimSuffix(l, "p")
			}
			return nil, ""
		case "(reflect.Value).Slice", "reflect.Append":
			return containerTypeOriginL(x.Call.Args[0], depth+1, seen)
		}
		return x, ""
	case *ssa.UnOp:
		if ia, ok := x.X.(*ssa.IndexAddr); ok {
			if c, ok := origin(ia.X).(*ssa.Call); ok {
				if f := c.Call.StaticCallee(); f != nil && f.String() == "(reflect.Value).MapKeys" {
					o, l := containerTypeOriginL(c.Call.Args[0], depth+1, seen)
					return o, l + "k"
				}
			}
		}
	case *ssa.Phi:
		if seen[x] {
			return x, "<cycle>"
		}
		seen[x] = true
		var o ssa.Value
		lvl := ""
		first := true
		for _, e := range x.Edges {
			eo, el := containerTypeOriginL(e, depth+1, seen)
			if el == "<cycle>" {
				continue // loop-carried edge back to a phi under evaluation
			}
			if eo == nil || (o != nil && (!sameReflect(o, eo) || el != lvl)) {
				return nil, ""
			}
			o = eo
			if first {
				lvl = el
				first = false
			}
		}
		return o, lvl
	}
	return v, ""
}

// kindPredicateSet: for a function func(k reflect.Kind) bool without calls, the set of kinds for
// which it returns true, computed by interpreting its SSA once per kind.
var kindPredMemo = map[*ssa.Function]map[int64]bool{}

func kindPredicateSet(g *ssa.Function) (map[int64]bool, bool) {
	if m, ok := kindPredMemo[g]; ok {
		return m, m != nil
	}
	kindPredMemo[g] = nil
	if !isTwigFn(g) || len(g.Blocks) == 0 || len(g.Params) != 1 {
		return nil, false
	}
	// a predicate over a kind, or over a value / type that looks at nothing but its kind
	if !isNamed(g.Params[0].Type(), "reflect", "Kind") && !isReflectValue(g.Params[0].Type()) && !isReflectType(g.Params[0].Type()) {
		return nil, false
	}
	if g.Signature.Results().Len() != 1 || !types.Identical(g.Signature.Results().At(0).Type().Underlying(), types.Typ[types.Bool]) {
		return nil, false
	}
	out := map[int64]bool{}
	for k := int64(0); k < int64(len(kindNames)); k++ {
		v, ok := interpretKindPredicate(g, k)
		if !ok {
			return nil, false
		}
		out[k] = v
	}
	kindPredMemo[g] = out
	return out, true
}

func interpretKindPredicate(g *ssa.Function, k int64) (bool, bool) {
	vals := map[ssa.Value]constant.Value{g.Params[0]: constant.MakeInt64(k)}
	get := func(v ssa.Value) (constant.Value, bool) {
		if c, ok := v.(*ssa.Const); ok {
			return c.Value, c.Value != nil
		}
		cv, ok := vals[v]
		return cv, ok
	}
	blk := g.Blocks[0]
	var prev *ssa.BasicBlock
	for steps := 0; steps < 500; steps++ {
		next := (*ssa.BasicBlock)(nil)
		for _, in := range blk.Instrs {
			switch x := in.(type) {
			case *ssa.DebugRef:
			case *ssa.Phi:
				found := false
				for i, p := range blk.Preds {
					if p == prev {
						if cv, ok := get(x.Edges[i]); ok {
							vals[x] = cv
							found = true
						}
					}
				}
				if !found {
					return false, false
				}
			case *ssa.BinOp:
				a, ok1 := get(x.X)
				b, ok2 := get(x.Y)
				if !ok1 || !ok2 {
					return false, false
				}
				switch x.Op {
				case token.EQL, token.NEQ, token.LSS, token.LEQ, token.GTR, token.GEQ:
					vals[x] = constant.MakeBool(constant.Compare(a, x.Op, b))
				default:
					return false, false
				}
			case *ssa.UnOp:
				a, ok := get(x.X)
				if !ok || x.Op != token.NOT {
					return false, false
				}
				vals[x] = constant.MakeBool(!constant.BoolVal(a))
			case *ssa.Convert:
				a, ok := get(x.X)
				if !ok {
					return false, false
				}
				vals[x] = a
			case *ssa.ChangeType:
				a, ok := get(x.X)
				if !ok {
					return false, false
				}
				vals[x] = a
			case *ssa.Call:
				// param.Kind() where the parameter is the value / type itself
				sub, ok := kindCallOn(x)
				if !ok || unspill(sub) != ssa.Value(g.Params[0]) {
					return false, false
				}
				vals[x] = constant.MakeInt64(k)
			case *ssa.If:
				c, ok := get(x.Cond)
				if !ok {
					return false, false
				}
				if constant.BoolVal(c) {
					next = blk.Succs[0]
				} else {
					next = blk.Succs[1]
				}
			case *ssa.Jump:
				next = blk.Succs[0]
			case *ssa.Return:
				if len(x.Results) != 1 {
					return false, false
				}
				c, ok := get(x.Results[0])
				if !ok || c.Kind() != constant.Bool {
					return false, false
				}
				return constant.BoolVal(c), true
			default:
				return false, false
			}
		}
		if next == nil {
			return false, false
		}
		prev, blk = blk, next
	}
	return false, false
}

// guardedAsCallbackElement: the receiver is the parameter of a function literal handed, together
// with a slice, to one of the slices.*Func helpers (ContainsFunc, IndexFunc, …): the parameter
// is an element of that slice.  Elements of v.MapKeys() are valid Values (validity obligations
// only).
func guardedAsCallbackElement(fn *ssa.Function, s reflectSite) string {
	parent := fn.Parent()
	if parent == nil || len(s.legal) != len(allValidKinds) || s.onType {
		return ""
	}
	p, ok := unspill(s.recv).(*ssa.Parameter)
	if !ok || p.Parent() != fn {
		return ""
	}
	out := ""
	instrsOf(parent, func(in ssa.Instruction) {
		c, ok := in.(*ssa.Call)
		if !ok || out != "" {
			return
		}
		f := calleeFunc(c)
		if f == nil || f.Pkg() == nil || f.Pkg().Path() != "slices" || !strings.HasSuffix(f.Name(), "Func") || len(c.Call.Args) != 2 {
			return
		}
		mc, ok := c.Call.Args[1].(*ssa.MakeClosure)
		if !ok || mc.Fn != ssa.Value(fn) {
			if fv, isFn := c.Call.Args[1].(*ssa.Function); !isFn || fv != fn {
				return
			}
		}
		src, ok := unspill(c.Call.Args[0]).(*ssa.Call)
		if !ok {
			return
		}
		if g := src.Call.StaticCallee(); g != nil && g.String() == "(reflect.Value).MapKeys" {
			out = "parameter of a callback of slices." + f.Name() + " over MapKeys(): every element is a valid Value"
		}
	})
	return out
}
