package main

// C08 — expressions follow the operator table and mean the same in every position.
//
// Only three clauses are visible in the shape of the code and are claimed:
// R08.1 one operator table, several copies in agreement: the precedence switch, the evaluation
//       switch, the parser's word-operator disjunctions and multi-word assembly, and the
//       tokenizer's operator characters agree, and the precedence classes are ordered and
//       populated as the property states.
// R08.2 short-circuit and single-branch evaluation: the right operand of and/or is evaluated only
//       when needed, and the conditional operator evaluates exactly one branch.
// R08.3 the print tag uses the shared expression tokenizer: tag content becomes a single NAME
//       token without TokenizeExpression only under an identifier validator, never under a
//       character blacklist.

import (
	"fmt"
	"go/ast"
	"go/constant"
	"go/token"
	"go/types"
	"os"
	"sort"
	"strings"
	"unicode"

	"golang.org/x/tools/go/ssa"
)

func init() { register("C08", checkC08) }

// the operator classes of the property statement, lowest first
var specClasses = [][]string{
	{"or"},
	{"and"},
	{"==", "!=", "<", ">", "<=", ">=", "in", "not in", "matches", "starts with", "ends with"},
	{"+", "-", "~"},
	{"*", "/", "%"},
	{"^"},
}

// alternative spellings / extra members that may share a class without contradicting the table
var classExtras = map[string]int{"||": 0, "&&": 1, "is": 2, "is not": 2}

func isWordOp(op string) bool {
	for _, c := range op {
		if unicode.IsLetter(c) {
			return true
		}
	}
	return false
}

// stringSwitchTable: for a function whose body contains `switch <string>` with constant cases,
// returns case-string -> index of the clause, plus the returned constant per clause (if any).
func (w *World) stringSwitchCases(fd *ast.FuncDecl, tagIsParam bool) (map[string]*ast.CaseClause, *ast.SwitchStmt) {
	var best *ast.SwitchStmt
	bestN := 0
	ast.Inspect(fd.Body, func(n ast.Node) bool {
		sw, ok := n.(*ast.SwitchStmt)
		if !ok || sw.Tag == nil {
			return true
		}
		if b, ok := w.Info.TypeOf(sw.Tag).Underlying().(*types.Basic); !ok || b.Info()&types.IsString == 0 {
			return true
		}
		n2 := 0
		for _, cl := range sw.Body.List {
			n2 += len(cl.(*ast.CaseClause).List)
		}
		if n2 > bestN {
			best, bestN = sw, n2
		}
		return true
	})
	if best == nil {
		return nil, nil
	}
	out := map[string]*ast.CaseClause{}
	for _, cl := range best.Body.List {
		cc := cl.(*ast.CaseClause)
		for _, e := range cc.List {
			if tv := w.Info.Types[e]; tv.Value != nil && tv.Value.Kind() == constant.String {
				out[constant.StringVal(tv.Value)] = cc
			}
		}
	}
	return out, best
}

func checkC08(w *World, r *Report) {
	r.Explanation = "Decides three shape-visible clauses of C08 for every expression: (R08.1) the operator tables agree — the precedence switch puts or < and < comparison < additive < multiplicative < power with exactly the member sets of the specification, every operator with a precedence has an evaluation arm and vice versa, the parser's word-operator tests name exactly the first words of the table's word operators and assemble exactly its multi-word operators, and every symbol operator is tokenizable; (R08.2) in the evaluator the right operand of and/or is not evaluated when the left decides, and the conditional operator evaluates exactly one branch, on every path; (R08.3) in the tokenizers, print-tag content becomes a single NAME token without going through TokenizeExpression only under an identifier validator. (R08.4) the descent on a tighter operator is repeated (it lies on a cycle through the precedence comparison), (R08.5) the conditional operator is not consumed inside that descent, (R08.6) the operand of a unary operator is parsed as a primary — three necessary shape conditions of precedence climbing. NOT decided — and this is the heart of the property: that the precedence-climbing code implements the table (associativity and precedence of the parse result), unary-minus scope, numeric semantics; these are algorithmic/value-level facts outside static reach. (R08.7) a hand-written decimal formatter is reachable from a render root only through calls whose argument is confined to the digit count it provides for; (R08.8) the `in` / `not in` arms decide list membership through the equality routine of the == arm."
	r.Explanation += " Rules added in later rounds: (R08.9) relational operators compare numerically first; (R08.10) shape of the precedence descent; (R08.11) string→integer conversions that become literal values use base ten. (R08.12) single-token shortcuts beside TokenizeExpression need an identifier test of the whole text; (R08.13) numeric equality uses no ordering."
	r.Explanation += " Round 9: (R08.14) expression text and token values are pieces of the source, never rebuilt strings; (R08.15) an operator node is not replaced by its operand without reading the operator."
	r.Explanation += " Round 10: (R08.12) quoted-literal shortcuts need a no-quote-inside test; (R08.16) filter-chain parsers return their operand wrapped."
	r.Explanation += " Round 11: (R08.17) text in front of a keyword is consumed; (R08.18) one evaluator interprets BinaryNode operators; short-circuit helpers are summarised."
	r.Explanation += " Round 12: (R08.19) operator-node constructors keep operand roles."
	r.Explanation += " Round 13: (R08.20) string literals are decoded alike at every site."
	r.Explanation += " Round 14: (R08.21) operator-node builders return the node they build; (R08.22) the precedence table is asked about whole operators."
	r.RuleText = "obligation = one operator of one table / one evaluation site / one NAME shortcut; non-trivial = agreement and path obligations"
	r.Trusted = []string{"the specification table is transcribed from the property statement into the checker (specClasses)"}

	// ---- (a) precedence table
	precFn := w.fn("getOperatorPrecedence")
	precCases, _ := w.stringSwitchCases(w.decl(precFn), true)
	prec := map[string]int64{}
	for op, cc := range precCases {
		val := int64(-1)
		for _, st := range cc.Body {
			if ret, ok := st.(*ast.ReturnStmt); ok && len(ret.Results) == 1 {
				if tv := w.Info.Types[ret.Results[0]]; tv.Value != nil {
					val, _ = constant.Int64Val(tv.Value)
				}
			}
		}
		prec[op] = val
	}
	if len(precCases) < 10 {
		// table form: getOperatorPrecedence looks the operator up in a package-level
		// map[string]<int> literal
		prec = map[string]int64{}
		ast.Inspect(w.decl(precFn).Body, func(n ast.Node) bool {
			ix, ok := n.(*ast.IndexExpr)
			if !ok {
				return true
			}
			lit := w.pkgVarLiteral(ix.X)
			if lit == nil {
				return true
			}
			for _, el := range lit.Elts {
				kv, ok := el.(*ast.KeyValueExpr)
				if !ok {
					continue
				}
				ktv, vtv := w.Info.Types[kv.Key], w.Info.Types[kv.Value]
				if ktv.Value == nil || ktv.Value.Kind() != constant.String || vtv.Value == nil {
					continue
				}
				v, _ := constant.Int64Val(vtv.Value)
				prec[constant.StringVal(ktv.Value)] = v
			}
			return true
		})
		if len(prec) < 10 {
			cannotDecide("precedence table not found in getOperatorPrecedence (neither a string switch nor a lookup in a package-level map literal)")
		}
	}
	// default (lowest)
	lowest := int64(0)
	if lo, ok := w.tryLookup("PREC_LOWEST").(*types.Const); ok {
		lowest, _ = constant.Int64Val(lo.Val())
	}
	pos := w.pos(w.decl(precFn))
	classVal := make([]int64, len(specClasses))
	for ci, class := range specClasses {
		vals := map[int64]bool{}
		for _, op := range class {
			v, ok := prec[op]
			construct := fmt.Sprintf("precedence of %q", op)
			if !ok || v == lowest || v < 0 {
				r.bad("R08.1", "getOperatorPrecedence", construct, pos, "the operator has no precedence entry (it falls to the default / lowest class): it no longer binds as the operator table requires")
				continue
			}
			vals[v] = true
			classVal[ci] = v
			r.ok("R08.1", "getOperatorPrecedence", construct, pos, fmt.Sprintf("class value %d", v), false)
		}
		construct := fmt.Sprintf("class %v has one precedence", class)
		if len(vals) == 1 {
			r.ok("R08.1", "getOperatorPrecedence", construct, pos, "all members share one value", true)
		} else {
			r.bad("R08.1", "getOperatorPrecedence", construct, pos, fmt.Sprintf("members of one precedence class have different values %v", keysOf(vals)))
		}
	}
	for ci := 1; ci < len(specClasses); ci++ {
		construct := fmt.Sprintf("%v binds tighter than %v", specClasses[ci], specClasses[ci-1])
		if classVal[ci] > classVal[ci-1] {
			r.ok("R08.1", "getOperatorPrecedence", construct, pos, fmt.Sprintf("%d > %d", classVal[ci], classVal[ci-1]), true)
		} else {
			r.bad("R08.1", "getOperatorPrecedence", construct, pos, fmt.Sprintf("class order violated: %d is not greater than %d", classVal[ci], classVal[ci-1]))
		}
	}
	// extras must sit in their class; nothing else may have a precedence
	specIdx := map[string]int{}
	for ci, class := range specClasses {
		for _, op := range class {
			specIdx[op] = ci
		}
	}
	var ops []string
	for op := range prec {
		ops = append(ops, op)
	}
	sort.Strings(ops)
	for _, op := range ops {
		if _, ok := specIdx[op]; ok {
			continue
		}
		construct := fmt.Sprintf("extra table entry %q", op)
		if ci, ok := classExtras[op]; ok && prec[op] == classVal[ci] {
			r.ok("R08.1", "getOperatorPrecedence", construct, pos, "alternative spelling / test operator in the class of its meaning", false)
		} else {
			r.bad("R08.1", "getOperatorPrecedence", construct, pos, "an operator that is not in the specified table has a precedence, or an alternative spelling sits in the wrong class")
		}
	}

	// ---- (b) evaluation switch
	evalFn := w.method("RenderContext", "evaluateBinaryOp")
	evalCases, _ := w.stringSwitchCases(w.decl(evalFn), true)
	// operators dispatched through a package-level table indexed by the operator (a map of
	// functions) have their arm in that table
	evalTable := map[string]bool{}
	ast.Inspect(w.decl(evalFn).Body, func(n ast.Node) bool {
		ix, ok := n.(*ast.IndexExpr)
		if !ok {
			return true
		}
		lit := w.pkgVarLiteral(ix.X)
		if lit == nil {
			return true
		}
		if mt, ok := w.Info.TypeOf(ix.X).Underlying().(*types.Map); !ok || !types.Identical(mt.Key().Underlying(), types.Typ[types.String]) {
			return true
		}
		for _, el := range lit.Elts {
			if kv, ok := el.(*ast.KeyValueExpr); ok {
				if ktv := w.Info.Types[kv.Key]; ktv.Value != nil && ktv.Value.Kind() == constant.String {
					evalTable[constant.StringVal(ktv.Value)] = true
				}
			}
		}
		return true
	})
	r.floor("string cases in evaluateBinaryOp", len(evalCases)+len(evalTable), 10)
	epos := w.pos(w.decl(evalFn))
	for _, op := range ops {
		if op == "is" || op == "is not" {
			continue // build test nodes, never reach evaluateBinaryOp
		}
		construct := fmt.Sprintf("evaluation arm for %q", op)
		if evalCases[op] != nil || evalTable[op] {
			r.ok("R08.1", "(*RenderContext).evaluateBinaryOp", construct, epos, "has an arm", true)
		} else {
			r.bad("R08.1", "(*RenderContext).evaluateBinaryOp", construct, epos, "the operator has a precedence (the parser builds a binary node for it) but no evaluation arm")
		}
	}
	var eops []string
	for op := range evalCases {
		eops = append(eops, op)
	}
	for op := range evalTable {
		eops = append(eops, op)
	}
	sort.Strings(eops)
	for _, op := range eops {
		if _, ok := prec[op]; ok || op == "not" {
			continue
		}
		r.bad("R08.1", "(*RenderContext).evaluateBinaryOp", fmt.Sprintf("precedence for evaluated operator %q", op), epos, "the evaluator knows an operator that the precedence table does not")
	}

	// ---- (c) parser: word-operator disjunctions and multi-word assembly
	firstWords := map[string]bool{}
	multi := map[string]bool{}
	for _, op := range ops {
		if !isWordOp(op) {
			continue
		}
		firstWords[strings.Fields(op)[0]] = true
		if strings.Contains(op, " ") {
			multi[op] = true
		}
	}
	nDisj := 0
	assembled := map[string]bool{}
	takesToken := func(fd *ast.FuncDecl) bool {
		obj, ok := w.Info.Defs[fd.Name].(*types.Func)
		if !ok {
			return false
		}
		sig := obj.Type().(*types.Signature)
		if rv := sig.Recv(); rv != nil && isNamed(rv.Type(), twigPath, "Token") {
			return true
		}
		ps := sig.Params()
		for i := 0; i < ps.Len(); i++ {
			if isNamed(ps.At(i).Type(), twigPath, "Token") {
				return true
			}
		}
		return false
	}
	// recognition set: compare the collected words with the table's first words
	checkWords := func(fname string, words map[string]bool, at ast.Node) {
		nOps := 0
		for wd := range words {
			if firstWords[wd] {
				nOps++
			}
		}
		if nOps < 3 {
			return // not an operator-recognition set
		}
		nDisj++
		var missing, extra []string
		for wd := range firstWords {
			if !words[wd] {
				missing = append(missing, wd)
			}
		}
		for wd := range words {
			if !firstWords[wd] {
				extra = append(extra, wd)
			}
		}
		sort.Strings(missing)
		sort.Strings(extra)
		construct := "word operators recognised as binary operators"
		if len(missing)+len(extra) == 0 {
			r.ok("R08.1", fname, construct, w.pos(at), "exactly the first words of the table's word operators", true)
		} else {
			r.bad("R08.1", fname, construct, w.pos(at), fmt.Sprintf("the parser's operator test and the precedence table disagree: missing %v, extra %v — an expression using such an operator parses differently here", missing, extra))
		}
	}
	for _, fd := range w.sortedDecls() {
		if fd.Body == nil || !(w.parserSide(fd) || takesToken(fd)) {
			continue
		}
		fname := w.declName(fd)
		seenTop := map[ast.Node]bool{}
		ast.Inspect(fd.Body, func(n ast.Node) bool {
			switch x := n.(type) {
			case *ast.CaseClause:
				// switch tok.Value { case "and", "or", …: } — the switch form of the disjunction
				sw, ok := w.parents[w.parents[x]].(*ast.SwitchStmt)
				if !ok || sw.Tag == nil {
					return true
				}
				if sel, ok := ast.Unparen(sw.Tag).(*ast.SelectorExpr); !ok || sel.Sel.Name != "Value" {
					return true
				}
				words := map[string]bool{}
				for _, e := range x.List {
					if tv := w.Info.Types[e]; tv.Value != nil && tv.Value.Kind() == constant.String {
						words[constant.StringVal(tv.Value)] = true
					}
				}
				checkWords(fname, words, x)
			case *ast.IndexExpr:
				// operatorWords[tok.Value]: the table form of the disjunction;
				// twoWordOperators[tok.Value]: first word -> second word of the multi-word operators
				sel, ok := ast.Unparen(x.Index).(*ast.SelectorExpr)
				if !ok || sel.Sel.Name != "Value" {
					return true
				}
				lit := w.pkgVarLiteral(x.X)
				if lit == nil {
					return true
				}
				mt, ok := w.Info.TypeOf(x.X).Underlying().(*types.Map)
				if !ok {
					return true
				}
				words := map[string]bool{}
				for _, el := range lit.Elts {
					kv, ok := el.(*ast.KeyValueExpr)
					if !ok {
						continue
					}
					ktv := w.Info.Types[kv.Key]
					if ktv.Value == nil || ktv.Value.Kind() != constant.String {
						continue
					}
					k := constant.StringVal(ktv.Value)
					vtv := w.Info.Types[kv.Value]
					switch {
					case types.Identical(mt.Elem().Underlying(), types.Typ[types.Bool]):
						if vtv.Value != nil && vtv.Value.Kind() == constant.Bool && constant.BoolVal(vtv.Value) {
							words[k] = true
						}
					case types.Identical(mt.Elem().Underlying(), types.Typ[types.String]):
						if vtv.Value != nil && vtv.Value.Kind() == constant.String {
							s := k + " " + constant.StringVal(vtv.Value)
							if isWordOp(s) {
								assembled[s] = true
								if !multi[s] {
									r.bad("R08.1", fname, fmt.Sprintf("assembled operator %q", s), w.pos(x), "the parser assembles a multi-word operator that has no precedence entry")
								}
							}
						}
					default:
						// first word -> record {second word, whole operator}
						if cl, ok := ast.Unparen(kv.Value).(*ast.CompositeLit); ok {
							ast.Inspect(cl, func(nn ast.Node) bool {
								e, ok := nn.(ast.Expr)
								if !ok {
									return true
								}
								tv := w.Info.Types[e]
								if tv.Value == nil || tv.Value.Kind() != constant.String {
									return true
								}
								for _, s := range []string{constant.StringVal(tv.Value), k + " " + constant.StringVal(tv.Value)} {
									if strings.Contains(s, " ") && isWordOp(s) && len(strings.Fields(s)) == 2 {
										assembled[s] = true
										if !multi[s] {
											r.bad("R08.1", fname, fmt.Sprintf("assembled operator %q", s), w.pos(x), "the parser assembles a multi-word operator that has no precedence entry")
										}
									}
								}
								return true
							})
						}
					}
				}
				if len(words) > 0 && !seenTop[lit] {
					seenTop[lit] = true
					checkWords(fname, words, x)
				}
			case *ast.ReturnStmt:
				for _, res := range x.Results {
					if tv := w.Info.Types[res]; tv.Value != nil && tv.Value.Kind() == constant.String {
						s := constant.StringVal(tv.Value)
						if strings.Contains(s, " ") && isWordOp(s) && len(strings.Fields(s)) == 2 {
							assembled[s] = true
							if !multi[s] {
								r.bad("R08.1", fname, fmt.Sprintf("assembled operator %q", s), w.pos(x), "the parser assembles a multi-word operator that has no precedence entry")
							}
						}
					}
				}
			case *ast.BinaryExpr:
				if x.Op != token.LOR || seenTop[x] {
					return true
				}
				// maximal ||-tree
				var top ast.Node = x
				for {
					p := w.parents[top]
					if pe, ok := p.(*ast.ParenExpr); ok {
						top = pe
						continue
					}
					if pb, ok := p.(*ast.BinaryExpr); ok && pb.Op == token.LOR {
						top = pb
						continue
					}
					break
				}
				if seenTop[top] {
					return true
				}
				seenTop[top] = true
				words := map[string]bool{}
				var collect func(e ast.Expr)
				collect = func(e ast.Expr) {
					e = ast.Unparen(e)
					if b, ok := e.(*ast.BinaryExpr); ok {
						if b.Op == token.LOR {
							collect(b.X)
							collect(b.Y)
							return
						}
						if b.Op == token.EQL {
							if sel, ok := ast.Unparen(b.X).(*ast.SelectorExpr); ok && sel.Sel.Name == "Value" {
								if tv := w.Info.Types[b.Y]; tv.Value != nil && tv.Value.Kind() == constant.String {
									words[constant.StringVal(tv.Value)] = true
								}
							}
						}
					}
				}
				collect(top.(ast.Expr))
				checkWords(fname, words, top)
			case *ast.AssignStmt:
				for i, rhs := range x.Rhs {
					if tv := w.Info.Types[rhs]; tv.Value != nil && tv.Value.Kind() == constant.String && i < len(x.Lhs) {
						s := constant.StringVal(tv.Value)
						if strings.Contains(s, " ") && isWordOp(s) {
							assembled[s] = true
							if !multi[s] {
								r.bad("R08.1", fname, fmt.Sprintf("assembled operator %q", s), w.pos(x), "the parser assembles a multi-word operator that has no precedence entry")
							}
						}
					}
				}
			}
			return true
		})
	}
	r.floor("word-operator disjunctions in the parser", nDisj, 1)
	var ms []string
	for m := range multi {
		ms = append(ms, m)
	}
	sort.Strings(ms)
	for _, m := range ms {
		construct := fmt.Sprintf("multi-word operator %q is assembled by the parser", m)
		if assembled[m] {
			r.ok("R08.1", "(parser)", construct, "-", "assigned as operator string in a parser function", true)
		} else {
			r.bad("R08.1", "(parser)", construct, "-", "the table knows the operator but no parser function assembles it from its words")
		}
	}

	// ---- (d) tokenizer: operator characters
	opChars := ""
	if f := w.tryFn("isOperator"); f != nil {
		ast.Inspect(w.decl(f).Body, func(n ast.Node) bool {
			if c, ok := n.(*ast.CallExpr); ok && (w.calleeIs(c, "strings", "", "ContainsRune") || w.calleeIs(c, "strings", "", "IndexByte") || w.calleeIs(c, "strings", "", "ContainsAny")) {
				if tv := w.Info.Types[c.Args[0]]; tv.Value != nil && tv.Value.Kind() == constant.String {
					opChars = constant.StringVal(tv.Value)
				}
			}
			return true
		})
	}
	if opChars == "" {
		cannotDecide("operator character set of isOperator not found")
	}
	// two-character operators recognised by a tokenizer: pairs of char comparisons joined by &&
	twoChar := map[string]bool{}
	for _, fd := range w.sortedDecls() {
		ast.Inspect(fd.Body, func(n ast.Node) bool {
			b, ok := n.(*ast.BinaryExpr)
			if !ok || b.Op != token.LAND {
				return true
			}
			c1, ok1 := charCompare(w, b.X)
			c2, ok2 := charCompare(w, b.Y)
			if ok1 && ok2 {
				twoChar[string([]byte{c1, c2})] = true
			}
			return true
		})
		// switch form: switch c { case '=', '!': … next == '=' …; case '&', '|': … next == c … }
		ast.Inspect(fd.Body, func(n ast.Node) bool {
			cc, ok := n.(*ast.CaseClause)
			if !ok || len(cc.List) == 0 {
				return true
			}
			sw, ok := w.parents[w.parents[cc]].(*ast.SwitchStmt)
			if !ok || sw.Tag == nil {
				return true
			}
			var firsts []byte
			for _, e := range cc.List {
				bl, isLit := ast.Unparen(e).(*ast.BasicLit)
				tv := w.Info.Types[e]
				if !isLit || bl.Kind != token.CHAR || tv.Value == nil {
					return true
				}
				c, _ := constant.Int64Val(tv.Value)
				if c < 0 || c > 127 {
					return true
				}
				firsts = append(firsts, byte(c))
			}
			tagStr := types.ExprString(sw.Tag)
			for _, st := range cc.Body {
				ast.Inspect(st, func(m ast.Node) bool {
					b, ok := m.(*ast.BinaryExpr)
					if !ok || b.Op != token.EQL {
						return true
					}
					if c2, ok := charCompare(w, b); ok {
						for _, f := range firsts {
							twoChar[string([]byte{f, c2})] = true
						}
					} else if types.ExprString(b.Y) == tagStr || types.ExprString(b.X) == tagStr {
						for _, f := range firsts {
							twoChar[string([]byte{f, f})] = true
						}
					}
					return true
				})
			}
			return true
		})
	}
	for _, op := range ops {
		if isWordOp(op) {
			continue
		}
		construct := fmt.Sprintf("symbol operator %q is tokenizable", op)
		okTok := strings.ContainsRune(opChars, rune(op[0]))
		if len(op) == 2 {
			okTok = okTok && twoChar[op]
		}
		switch {
		case okTok:
			r.ok("R08.1", "(tokenizer)", construct, "-", "its characters are operator characters"+map[bool]string{true: " and the pair is recognised", false: ""}[len(op) == 2], true)
		case op == "||":
			r.except("R08.1", "(tokenizer)", construct, "-", "dead alternative spelling of `or`: `|` is the filter punctuation and never starts an operator token; the table and evaluator entries are unreachable, and `or` itself is a word operator")
		default:
			r.bad("R08.1", "(tokenizer)", construct, "-", fmt.Sprintf("the tokenizer cannot produce this operator (operator characters: %q): expressions using it are mis-tokenized", opChars))
		}
	}

	checkShortCircuit(w, r)
	checkNameShortcut(w, r)
	checkPrecedenceDescent(w, r)
	checkDecimalLiterals(w, r)
	checkExpressionShortcuts(w, r)
	checkExpressionTextIsSource(w, r, "R08.14")
	checkOperandsNotPromoted(w, r)
	checkPostfixParsersWrapTheirOperand(w, r)
	checkTagTextConsumed(w, r, "R08.17")
	checkOneEvaluator(w, r)
	checkConstructorsKeepRoles(w, r)
	checkConstructorsReturnTheirNode(w, r)
	checkStringLiteralsDecodedAlike(w, r)
	checkNumberFormatting(w, r)
	checkMembershipEquality(w, r, evalCases)
	checkRelationalNumericFirst(w, r, evalCases)
}

func keysOf(m map[int64]bool) []int64 {
	var out []int64
	for k := range m {
		out = append(out, k)
	}
	sort.Slice(out, func(i, j int) bool { return out[i] < out[j] })
	return out
}

func charCompare(w *World, e ast.Expr) (byte, bool) {
	b, ok := ast.Unparen(e).(*ast.BinaryExpr)
	if !ok || b.Op != token.EQL {
		return 0, false
	}
	tv := w.Info.Types[b.Y]
	if tv.Value == nil || tv.Value.Kind() != constant.Int {
		return 0, false
	}
	if bl, ok := ast.Unparen(b.Y).(*ast.BasicLit); !ok || bl.Kind != token.CHAR {
		return 0, false
	}
	c, _ := constant.Int64Val(tv.Value)
	if c < 0 || c > 127 {
		return 0, false
	}
	return byte(c), true
}

// ---------------------------------------------------------------- R08.2

func checkShortCircuit(w *World, r *Report) {
	evalM := w.method("RenderContext", "EvaluateExpression")
	fn := w.ssaFunc(evalM)
	toBool := w.method("RenderContext", "toBool")

	// classify instructions
	evalOf := func(in ssa.Instruction) (typ, field string, ok bool) {
		c, isCall := in.(*ssa.Call)
		if !isCall || calleeFunc(c) != evalM {
			return "", "", false
		}
		args := callArgs(c)
		if len(args) != 1 {
			return "", "", false
		}
		u, isU := args[0].(*ssa.UnOp)
		if !isU {
			return "", "", false
		}
		fa, isFA := u.X.(*ssa.FieldAddr)
		if !isFA {
			return "", "", false
		}
		typ, field = fieldOfAddr(fa)
		return typ, field, true
	}
	// value -> which operand it is the evaluation result of
	resultOf := map[ssa.Value]string{}
	instrsOf(fn, func(in ssa.Instruction) {
		if typ, field, ok := evalOf(in); ok {
			v := in.(ssa.Value)
			if v.Referrers() != nil {
				for _, ref := range *v.Referrers() {
					if ex, ok := ref.(*ssa.Extract); ok && ex.Index == 0 {
						resultOf[ex] = typ + "." + field
					}
				}
			}
		}
	})
	toBoolOf := func(v ssa.Value) string {
		c, ok := v.(*ssa.Call)
		if !ok || calleeFunc(c) != toBool {
			return ""
		}
		args := callArgs(c)
		if len(args) != 1 {
			return ""
		}
		return resultOf[args[0]]
	}

	type st struct {
		b    *ssa.BasicBlock
		ops  uint8 // bit set over {and, &&, or, ||, other}: possible operators
		lb   int8  // toBool(left): 0 unknown, 1 true, 2 false
		cb   int8  // toBool(condition)
		sawT bool
		sawF bool
	}
	opBit := map[string]uint8{"and": 1, "&&": 2, "or": 4, "||": 8}
	const allOps = uint8(31)
	var violAnd, violOr, violCondBoth, violCondT, violCondF string
	nRight, nTrue, nFalse := 0, 0, 0
	seen := map[st]bool{}
	var dfs func(s st)
	dfs = func(s st) {
		if seen[s] {
			return
		}
		seen[s] = true
		for _, in := range s.b.Instrs {
			if typ, field, ok := evalOf(in); ok {
				switch typ + "." + field {
				case "BinaryNode.right":
					nRight++
					if s.ops&(1|2) != 0 && s.lb != 1 && violAnd == "" {
						violAnd = w.posOf(in.Pos())
					}
					if s.ops&(4|8) != 0 && s.lb != 2 && violOr == "" {
						violOr = w.posOf(in.Pos())
					}
				case "ConditionalNode.trueExpr":
					nTrue++
					if s.cb != 1 && violCondT == "" {
						violCondT = w.posOf(in.Pos())
					}
					if s.sawF && violCondBoth == "" {
						violCondBoth = w.posOf(in.Pos())
					}
					s.sawT = true
				case "ConditionalNode.falseExpr":
					nFalse++
					if s.cb != 2 && violCondF == "" {
						violCondF = w.posOf(in.Pos())
					}
					if s.sawT && violCondBoth == "" {
						violCondBoth = w.posOf(in.Pos())
					}
					s.sawF = true
				}
			}
		}
		v, trueIdx, ok := ifCond(s.b)
		for i, succ := range s.b.Succs {
			n := s
			n.b = succ
			if ok {
				onTrue := i == trueIdx
				if bo, isBo := v.(*ssa.BinOp); isBo && bo.Op == token.EQL {
					// n.operator == "const"
					var fieldSide, constSide ssa.Value = bo.X, bo.Y
					if _, isC := bo.X.(*ssa.Const); isC {
						fieldSide, constSide = bo.Y, bo.X
					}
					if _, okf := fieldLoad(fieldSide, "BinaryNode", "operator"); okf {
						if cs, okc := constString(constSide); okc {
							bit, known := opBit[cs]
							if !known {
								bit = 0
							}
							if onTrue {
								if known {
									n.ops &= bit
								} else {
									n.ops &= 16
								}
							} else if known {
								n.ops &^= bit
							}
							if n.ops == 0 {
								continue // infeasible
							}
						}
					}
				}
				// a helper that is handed the operator and the left operand and answers with a
				// flag ("decided"): what its returns with that answer imply about both
				if ex, isEx := v.(*ssa.Extract); isEx {
					if hc, isCall := ex.Tuple.(*ssa.Call); isCall {
						if sums, ok := shortCircuitSummaries(hc, toBool, func(a ssa.Value) bool { return resultOf[a] == "BinaryNode.left" }); ok {
							for _, sum := range sums {
								if ex.Index < len(sum.res) && sum.res[ex.Index] != 0 && (sum.res[ex.Index] == 1) != onTrue {
									continue
								}
								m := n
								m.ops &= sum.ops
								if m.ops == 0 {
									continue
								}
								if sum.lb != 0 {
									if m.lb != 0 && m.lb != sum.lb {
										continue
									}
									m.lb = sum.lb
								}
								dfs(m)
							}
							continue
						}
					}
				}
				switch toBoolOf(v) {
				case "BinaryNode.left":
					want := int8(2)
					if onTrue {
						want = 1
					}
					if n.lb != 0 && n.lb != want {
						continue
					}
					n.lb = want
				case "ConditionalNode.condition":
					want := int8(2)
					if onTrue {
						want = 1
					}
					if n.cb != 0 && n.cb != want {
						continue
					}
					n.cb = want
				}
			}
			dfs(n)
		}
	}
	dfs(st{b: fn.Blocks[0], ops: allOps})
	if nRight == 0 || nTrue == 0 || nFalse == 0 {
		cannotDecide("R08.2: evaluation sites of BinaryNode.right / ConditionalNode branches not found (%d/%d/%d)", nRight, nTrue, nFalse)
	}
	name := ssaName(fn)
	rep := func(construct, viol, okWhy, badWhy string) {
		if viol == "" {
			r.ok("R08.2", name, construct, w.posOf(fn.Pos()), okWhy, true)
		} else {
			r.bad("R08.2", name, construct, viol, badWhy)
		}
	}
	rep("`and` evaluates its right operand only when the left is truthy", violAnd, "every path to the evaluation of the right operand with operator and/&& has toBool(left) == true", "a path reaches the evaluation of the right operand of and/&& although the left operand is falsy (or was not tested): no short circuit")
	rep("`or` evaluates its right operand only when the left is falsy", violOr, "every path to the evaluation of the right operand with operator or/|| has toBool(left) == false", "a path reaches the evaluation of the right operand of or/|| although the left operand is truthy (or was not tested): no short circuit")
	rep("conditional evaluates its true branch only when the condition is truthy", violCondT, "dominated by toBool(condition) == true", "the true branch of ?: can be evaluated without the condition being truthy")
	rep("conditional evaluates its false branch only when the condition is falsy", violCondF, "dominated by toBool(condition) == false", "the false branch of ?: can be evaluated without the condition being falsy")
	rep("conditional never evaluates both branches", violCondBoth, "no path contains both evaluations", "one path evaluates both branches of ?:")
}

// ---------------------------------------------------------------- R08.3

func checkNameShortcut(w *World, r *Report) {
	tokExpr := w.method("ZeroAllocTokenizer", "TokenizeExpression")
	nameKind, ok := w.lookup("TOKEN_NAME").(*types.Const)
	if !ok {
		cannotDecide("TOKEN_NAME is not a constant")
	}
	// identifier validators: func(string) bool of the package that test characters with a
	// func(byte) bool / func(rune) bool predicate
	validator := func(f *types.Func) bool {
		if f == nil || f.Pkg() == nil || f.Pkg().Path() != twigPath {
			return false
		}
		sig := f.Type().(*types.Signature)
		if sig.Params().Len() != 1 || sig.Results().Len() != 1 || !types.Identical(sig.Params().At(0).Type(), types.Typ[types.String]) || !types.Identical(sig.Results().At(0).Type(), types.Typ[types.Bool]) {
			return false
		}
		d := w.decls[f]
		if d == nil {
			return false
		}
		usesCharPred := false
		ast.Inspect(d.Body, func(n ast.Node) bool {
			if c, ok := n.(*ast.CallExpr); ok {
				if g := w.callee(c); g != nil {
					gs := g.Type().(*types.Signature)
					if gs.Params().Len() == 1 && gs.Results().Len() == 1 && types.Identical(gs.Results().At(0).Type(), types.Typ[types.Bool]) {
						if b, ok := gs.Params().At(0).Type().Underlying().(*types.Basic); ok && (b.Kind() == types.Uint8 || b.Kind() == types.Int32) {
							usesCharPred = true
						}
					}
				}
			}
			return true
		})
		return usesCharPred
	}
	n := 0
	for _, fd := range w.sortedDecls() {
		obj := w.Info.Defs[fd.Name].(*types.Func)
		if obj == tokExpr {
			continue
		}
		callsTokExpr := false
		ast.Inspect(fd.Body, func(nd ast.Node) bool {
			if c, ok := nd.(*ast.CallExpr); ok && w.callee(c) == tokExpr {
				callsTokExpr = true
			}
			return true
		})
		if !callsTokExpr {
			continue
		}
		fname := w.declName(fd)
		// a NAME shortcut: if <cond> { … AddToken(TOKEN_NAME, x) … } else { … TokenizeExpression(y) … }
		ast.Inspect(fd.Body, func(nd ast.Node) bool {
			ifs, ok := nd.(*ast.IfStmt)
			if !ok || ifs.Else == nil {
				return true
			}
			addsName := func(b ast.Node) bool {
				found := false
				ast.Inspect(b, func(m ast.Node) bool {
					if c, ok := m.(*ast.CallExpr); ok {
						if f := w.callee(c); f != nil && f.Name() == "AddToken" && len(c.Args) >= 2 && w.Info.Uses[identOf(c.Args[0])] == nameKind {
							if tv := w.Info.Types[c.Args[1]]; tv.Value == nil {
								found = true
							}
						}
					}
					return true
				})
				return found
			}
			callsExpr := func(b ast.Node) bool {
				found := false
				ast.Inspect(b, func(m ast.Node) bool {
					if c, ok := m.(*ast.CallExpr); ok && w.callee(c) == tokExpr {
						found = true
					}
					return true
				})
				return found
			}
			if !(addsName(ifs.Body) && callsExpr(ifs.Else) && !callsExpr(ifs.Body)) {
				return true
			}
			// the same string is either made a NAME token or handed to TokenizeExpression
			var exprArg types.Object
			ast.Inspect(ifs.Else, func(m ast.Node) bool {
				if c, ok := m.(*ast.CallExpr); ok && w.callee(c) == tokExpr && len(c.Args) == 1 {
					exprArg = identObj(w, c.Args[0])
				}
				return true
			})
			if exprArg == nil {
				return true
			}
			// the NAME token's value is that string itself (possibly interned / copied)
			derives := func(e ast.Expr) bool {
				e = ast.Unparen(e)
				if identObj(w, e) == exprArg {
					return true
				}
				if c, ok := e.(*ast.CallExpr); ok && len(c.Args) == 1 && identObj(w, c.Args[0]) == exprArg {
					return true
				}
				return false
			}
			same := false
			locals := map[types.Object]bool{}
			ast.Inspect(ifs.Body, func(m ast.Node) bool {
				switch x := m.(type) {
				case *ast.AssignStmt:
					if len(x.Lhs) == 1 && len(x.Rhs) == 1 && derives(x.Rhs[0]) {
						if o := identObj(w, x.Lhs[0]); o != nil {
							locals[o] = true
						}
					}
				case *ast.CallExpr:
					if f := w.callee(x); f != nil && f.Name() == "AddToken" && len(x.Args) >= 2 && w.Info.Uses[identOf(x.Args[0])] == nameKind {
						if derives(x.Args[1]) || locals[identObj(w, x.Args[1])] {
							same = true
						}
					}
				}
				return true
			})
			if !same {
				return true
			}
			n++
			construct := "single-NAME shortcut beside TokenizeExpression"
			cond := ast.Unparen(ifs.Cond)
			guardOK := false
			if c, ok := cond.(*ast.CallExpr); ok && validator(w.callee(c)) {
				guardOK = true
			}
			// conjunctions: every path into the body passed a validator call
			if b, ok := cond.(*ast.BinaryExpr); ok && b.Op == token.LAND {
				ast.Inspect(b, func(m ast.Node) bool {
					if c, ok := m.(*ast.CallExpr); ok && validator(w.callee(c)) {
						guardOK = true
					}
					return true
				})
			}
			if guardOK {
				r.ok("R08.3", fname, construct, w.pos(ifs), "taken only when an identifier validator accepts the tag content", true)
			} else {
				r.bad("R08.3", fname, construct, w.pos(ifs), "print-tag content is turned into one NAME token whenever `"+types.ExprString(ifs.Cond)+"` holds, which is not an identifier test: `{{ 4 }}`, `{{ a and b }}`, `{{ x is defined }}`, `{{ x ? 1 : 2 }}` are read as a single variable name and mean something else than in every other position")
			}
			return true
		})
	}
	r.floor("NAME shortcuts beside TokenizeExpression", n, 1)
}

func identOf(e ast.Expr) *ast.Ident {
	switch x := ast.Unparen(e).(type) {
	case *ast.Ident:
		return x
	case *ast.SelectorExpr:
		return x.Sel
	}
	return &ast.Ident{}
}

// checkNumberFormatting — R08.7: the digits of a number that a template prints come from the
// standard library.  The value of `a * b + c` is only "the same in every place it can be
// written" if every place turns it into text the same, exact way; a hand-written digit loop
// (`'0' + i%10`) is exact only for the range its author had in mind.  Obligation: every function
// of the package that produces decimal digits by arithmetic; it must not be reachable from a
// render root (today they serve the exported Buffer utilities only).
func checkNumberFormatting(w *World, r *Report) {
	reach := w.renderOnlyReachable()
	n := 0
	for _, fn := range w.pkgFuncs() {
		var at ssa.Instruction
		instrsOf(fn, func(in ssa.Instruction) {
			bo, ok := in.(*ssa.BinOp)
			if !ok || bo.Op != token.REM || at != nil {
				return
			}
			c, ok := bo.Y.(*ssa.Const)
			if !ok || c.Value == nil || c.Value.Kind() != constant.Int {
				return
			}
			if v, _ := constant.Int64Val(c.Value); v != 10 {
				return
			}
			// … + '0' (through conversions)
			seen := map[ssa.Value]bool{}
			var digit func(v ssa.Value, d int) bool
			digit = func(v ssa.Value, d int) bool {
				if seen[v] || d > 4 || v.Referrers() == nil {
					return false
				}
				seen[v] = true
				for _, ref := range *v.Referrers() {
					switch x := ref.(type) {
					case *ssa.Convert:
						if digit(x, d+1) {
							return true
						}
					case *ssa.BinOp:
						if x.Op == token.ADD {
							for _, o := range []ssa.Value{x.X, x.Y} {
								if k, ok := o.(*ssa.Const); ok && k.Value != nil && k.Value.Kind() == constant.Int {
									if kv, _ := constant.Int64Val(k.Value); kv == '0' {
										return true
									}
								}
							}
						}
					}
				}
				return false
			}
			if digit(bo, 0) {
				at = in
			}
		})
		if at == nil {
			continue
		}
		n++
		// capacity: the largest digit count the function provides for (the constants that flow
		// into an integer phi that bounds a loop: `digits = 1 … 6`)
		maxDigits := int64(0)
		instrsOf(fn, func(in ssa.Instruction) {
			ph, ok := in.(*ssa.Phi)
			if !ok || !types.Identical(ph.Type().Underlying(), types.Typ[types.Int]) {
				return
			}
			all, m := true, int64(0)
			for _, e := range ph.Edges {
				k, isC := e.(*ssa.Const)
				if !isC || k.Value == nil || k.Value.Kind() != constant.Int {
					all = false
					break
				}
				if kv, _ := constant.Int64Val(k.Value); kv > m {
					m = kv
				}
			}
			if all && len(ph.Edges) >= 2 && m >= 1 && m <= 18 && m > maxDigits {
				maxDigits = m
			}
		})
		capacity := int64(0)
		if maxDigits > 0 {
			capacity = 1
			for k := int64(0); k < maxDigits; k++ {
				capacity *= 10
			}
			capacity-- // largest magnitude that fits
		}
		anyReach := false
		for _, e := range realInEdges(fn) {
			caller := e.Caller.Func
			if e.Site == nil || !reach[caller] {
				continue
			}
			anyReach = true
			construct := "hand-written decimal formatter is called within its range"
			pos := w.posOf(e.Site.Pos())
			args := e.Site.Common().Args
			var arg ssa.Value
			for k, p := range fn.Params {
				if b, ok := p.Type().Underlying().(*types.Basic); ok && b.Info()&types.IsInteger != 0 && k < len(args) {
					arg = args[k]
				}
			}
			if capacity == 0 || arg == nil || e.Site.Common().StaticCallee() != fn {
				r.bad("R08.7", ssaName(caller), construct, pos, "digits are produced by arithmetic in "+ssaName(fn)+", which is reachable from a render root through this call, and the range it was written for cannot be established: the printed form of a number may differ from its value")
				continue
			}
			capWithin = capacity
			lo, hi := magnitudeGuards(arg, e.Site)
			if lo && hi {
				r.ok("R08.7", ssaName(caller), construct, pos, fmt.Sprintf("argument tested against constants within ±%d (%d digits) before the call", capacity, maxDigits), true)
			} else {
				r.bad("R08.7", ssaName(caller), construct, pos, fmt.Sprintf("%s formats at most %d digits, and this call — reachable from a render root (%s) — passes a value that is not confined to ±%d first: a larger number is printed without its leading digits, so `{{ 1000 * 1000 }}` prints 000000 while the same value compares and concatenates correctly", ssaName(fn), maxDigits, strings.Join(w.pathTo(w.renderRoots(), caller), " → "), capacity))
			}
		}
		if !anyReach {
			r.ok("R08.7", ssaName(fn), "hand-written decimal formatter is not on a render path", w.posOf(at.Pos()), "no call site is reachable from a render root: template numbers are formatted by strconv/fmt only", true)
		}
		_ = capacity
	}
	r.Counts["hand-written decimal formatters"] = n
}

// magnitudeGuards: the call is dominated by tests that bound the argument (or the value it was
// converted from, or that value plus/minus one) from below and from above by constants.  The
// constants are checked against the capacity by the caller through capWithin.
var capWithin int64

func magnitudeGuards(arg ssa.Value, site ssa.CallInstruction) (lo, hi bool) {
	// candidates: the argument, and what it is derived from through conversions and ±1
	cands := []ssa.Value{arg}
	for k := 0; k < len(cands) && k < 8; k++ {
		switch x := cands[k].(type) {
		case *ssa.Convert:
			cands = append(cands, x.X)
		case *ssa.BinOp:
			if x.Op == token.ADD || x.Op == token.SUB {
				if c, ok := x.Y.(*ssa.Const); ok && c.Value != nil && c.Value.Kind() == constant.Int {
					if kv, _ := constant.Int64Val(c.Value); kv >= -1 && kv <= 1 {
						cands = append(cands, x.X)
					}
				}
			}
		case *ssa.UnOp:
			if u := unspill(x); u != ssa.Value(x) {
				cands = append(cands, u)
			}
		}
	}
	isCand := func(v ssa.Value) bool {
		for _, c := range cands {
			if sameValue(c, v) || sameValue(unspill(c), unspill(v)) {
				return true
			}
		}
		return false
	}
	fn := site.Parent()
	flow := func(upper bool) bool {
		fl := &boolFlow{fn: fn, entry: false}
		fl.edge = func(b *ssa.BasicBlock, i int) bool {
			return anyEdgeFact(b, i, func(v ssa.Value, trueIdx int) bool {
				bo, ok := v.(*ssa.BinOp)
				if !ok {
					return false
				}
				x, y, op := bo.X, bo.Y, bo.Op
				if _, isC := x.(*ssa.Const); isC {
					x, y = y, x
					switch op {
					case token.LSS:
						op = token.GTR
					case token.GTR:
						op = token.LSS
					case token.LEQ:
						op = token.GEQ
					case token.GEQ:
						op = token.LEQ
					}
				}
				c, isC := y.(*ssa.Const)
				if !isC || c.Value == nil || !isCand(x) {
					return false
				}
				if i != trueIdx {
					switch op {
					case token.LSS:
						op = token.GEQ
					case token.LEQ:
						op = token.GTR
					case token.GTR:
						op = token.LEQ
					case token.GEQ:
						op = token.LSS
					default:
						return false
					}
				}
				f, _ := constant.Float64Val(constant.ToFloat(c.Value))
				if upper {
					return (op == token.LSS || op == token.LEQ) && f <= float64(capWithin)+1
				}
				return (op == token.GTR || op == token.GEQ) && f >= -float64(capWithin)-1
			})
		}
		fl.solve()
		return fl.at(site)
	}
	return flow(false), flow(true)
}

// checkMembershipEquality — R08.8: `x in [y]` holds exactly when `x == y` does.  The evaluator's
// `==` arm answers through one equality routine (numeric comparison when both sides are numbers,
// text otherwise); the `in` / `not in` arms must decide membership in a list with that same
// routine: the function they hand the operands to reaches it through static calls.  A
// containment helper with an equality of its own (string forms, reflect.DeepEqual) makes
// `1 in ['1.0']` and `1 == '1.0'` disagree.
func checkMembershipEquality(w *World, r *Report, evalCases map[string]*ast.CaseClause) {
	pkgCallees := func(n ast.Node) []*types.Func {
		var out []*types.Func
		ast.Inspect(n, func(x ast.Node) bool {
			call, ok := x.(*ast.CallExpr)
			if !ok {
				return true
			}
			var id *ast.Ident
			switch f := call.Fun.(type) {
			case *ast.Ident:
				id = f
			case *ast.SelectorExpr:
				id = f.Sel
			}
			if id == nil {
				return true
			}
			if fo, ok := w.Info.Uses[id].(*types.Func); ok && fo.Pkg() != nil && fo.Pkg().Path() == twigPath {
				out = append(out, fo)
			}
			return true
		})
		return out
	}
	eqArm := evalCases["=="]
	if eqArm == nil {
		return
	}
	var eqFns []*ssa.Function
	for _, fo := range pkgCallees(eqArm) {
		sig := fo.Type().(*types.Signature)
		if sig.Results().Len() == 1 && types.Identical(sig.Results().At(0).Type(), types.Typ[types.Bool]) && sig.Params().Len() == 2 {
			eqFns = append(eqFns, w.ssaFunc(fo))
		}
	}
	if len(eqFns) == 0 {
		r.note("the == arm of evaluateBinaryOp calls no two-argument equality function of the package: R08.8 has no anchor")
		return
	}
	// ---- R08.13: numeric equality is exact.  Neither the equality routine of the == arm nor a
	// helper it hands two numbers to compares floating-point numbers by order (<, <=, >, >=): an
	// "equal up to rounding error" makes 1700000000 == 1700000001 true (the tolerance grows with
	// the operands), so == stops agreeing with the integers the template wrote.
	{
		nEq := 0
		seenEq := map[*ssa.Function]bool{}
		var scanEq func(f *ssa.Function, d int)
		scanEq = func(f *ssa.Function, d int) {
			if f == nil || seenEq[f] || d > 2 || len(f.Blocks) == 0 {
				return
			}
			seenEq[f] = true
			isFloat := func(t types.Type) bool {
				b, ok := t.Underlying().(*types.Basic)
				return ok && b.Info()&types.IsFloat != 0
			}
			instrsOf(f, func(in ssa.Instruction) {
				switch x := in.(type) {
				case *ssa.BinOp:
					if !isFloat(x.X.Type()) {
						return
					}
					switch x.Op {
					case token.EQL, token.NEQ:
						nEq++
					case token.LSS, token.LEQ, token.GTR, token.GEQ:
						nEq++
						r.bad("R08.13", ssaName(f), "numbers are compared for equality exactly", w.posOf(x.Pos()), "the equality of == orders two floating-point numbers ("+x.Op.String()+"): equality within a tolerance is not equality — large integers one apart compare equal, and == / != / in stop agreeing with the numbers written in the template")
					}
				case *ssa.Call:
					if g := x.Call.StaticCallee(); g != nil && isTwigFn(g) && d < 2 {
						takesFloats := 0
						for _, a := range x.Call.Args {
							if isFloat(a.Type()) {
								takesFloats++
							}
						}
						if takesFloats >= 2 {
							scanEq(g, d+1)
						}
					}
				}
			})
		}
		for _, e := range eqFns {
			scanEq(e, 0)
		}
		r.ok("R08.13", "(equality of ==)", "numbers are compared for equality exactly", "-", fmt.Sprintf("%d floating-point comparisons examined in the equality routine and its numeric helpers", nEq), true)
	}
	n := 0
	for _, op := range []string{"in", "not in"} {
		arm := evalCases[op]
		if arm == nil {
			continue
		}
		callees := pkgCallees(arm)
		if len(callees) == 0 {
			continue
		}
		n++
		construct := fmt.Sprintf("operator %q decides membership with the equality of ==", op)
		found := false
		var names []string
		for _, fo := range callees {
			names = append(names, fo.Name())
			// static reachability, depth <= 3
			seen := map[*ssa.Function]bool{}
			var walk func(f *ssa.Function, d int)
			walk = func(f *ssa.Function, d int) {
				if f == nil || seen[f] || d > 3 || found {
					return
				}
				seen[f] = true
				for _, e := range eqFns {
					if f == e {
						found = true
						return
					}
				}
				instrsOf(f, func(in ssa.Instruction) {
					if c, ok := in.(ssa.CallInstruction); ok {
						if g := c.Common().StaticCallee(); g != nil && isTwigFn(g) {
							walk(g, d+1)
						}
					}
				})
			}
			walk(w.ssaFunc(fo), 0)
		}
		if found {
			r.ok("R08.8", "(*RenderContext).evaluateBinaryOp", construct, w.pos(arm), "the containment helper reaches "+eqFns[0].Name()+", the routine behind ==", true)
		} else {
			r.bad("R08.8", "(*RenderContext).evaluateBinaryOp", construct, w.pos(arm), "membership is decided by "+strings.Join(names, ", ")+", which never calls "+eqFns[0].Name()+" (the routine that answers ==): elements are compared by another equality (string forms, identity), so `1 in ['1.0']`, `true in [1]` or `'01' in [1]` disagree with the corresponding == comparison")
		}
	}
	r.Counts["membership operators checked against =="] = n
}

// checkRelationalNumericFirst — R08.9: `<  >  <=  >=` compare numbers wherever both operands are
// numbers or numeric strings.  In evaluateBinaryOp and the package helpers its relational arms
// hand the operands to, an ordering of two strings (`a < b` on strings, strings.Compare) is at
// most a fallback: it is dominated by the failure edge of the numeric conversion the arm uses.
// A string ordering tried first makes '10' < '9' true although 10 < 9 is false.
func checkRelationalNumericFirst(w *World, r *Report, evalCases map[string]*ast.CaseClause) {
	evalFn := w.ssaFunc(w.method("RenderContext", "evaluateBinaryOp"))
	// the numeric conversion: a (float64, bool) function of the package called in the "<" arm
	var conv *types.Func
	fns := map[*ssa.Function]bool{evalFn: true}
	for _, op := range []string{"<", ">", "<=", ">="} {
		arm := evalCases[op]
		if arm == nil {
			continue
		}
		ast.Inspect(arm, func(n ast.Node) bool {
			call, ok := n.(*ast.CallExpr)
			if !ok {
				return true
			}
			fo := w.callee(call)
			if fo == nil || fo.Pkg() == nil || fo.Pkg().Path() != twigPath {
				return true
			}
			sig := fo.Type().(*types.Signature)
			if sig.Results().Len() == 2 && types.Identical(sig.Results().At(1).Type(), types.Typ[types.Bool]) {
				if b, ok := sig.Results().At(0).Type().Underlying().(*types.Basic); ok && b.Info()&types.IsFloat != 0 && sig.Params().Len() == 1 {
					conv = fo
					return true
				}
			}
			fns[w.ssaFunc(fo)] = true
			return true
		})
	}
	if conv == nil {
		// the arms delegate everything to a helper: the conversion is called there
		for fn := range fns {
			if fn == nil {
				continue
			}
			instrsOf(fn, func(in ssa.Instruction) {
				if c, ok := in.(*ssa.Call); ok && conv == nil {
					if fo := calleeFunc(c); fo != nil && fo.Pkg() != nil && fo.Pkg().Path() == twigPath {
						sig := fo.Type().(*types.Signature)
						if sig.Results().Len() == 2 && sig.Params().Len() == 1 && types.Identical(sig.Results().At(1).Type(), types.Typ[types.Bool]) {
							if b, ok := sig.Results().At(0).Type().Underlying().(*types.Basic); ok && b.Info()&types.IsFloat != 0 {
								conv = fo
							}
						}
					}
				}
			})
		}
	}
	n := 0
	for fn := range fns {
		if fn == nil || len(fn.Blocks) == 0 {
			continue
		}
		instrsOf(fn, func(in ssa.Instruction) {
			what := ""
			switch x := in.(type) {
			case *ssa.BinOp:
				switch x.Op {
				case token.LSS, token.GTR, token.LEQ, token.GEQ:
					if b, ok := x.X.Type().Underlying().(*types.Basic); ok && b.Info()&types.IsString != 0 {
						what = "string " + x.Op.String() + " string"
					}
				}
			case *ssa.Call:
				if f := calleeFunc(x); f != nil && f.FullName() == "strings.Compare" {
					what = "strings.Compare"
				}
			}
			if what == "" {
				return
			}
			n++
			construct := "string ordering only after the numeric comparison was impossible"
			good := false
			if conv != nil {
				fl := &boolFlow{fn: fn, entry: false}
				fl.edge = func(b *ssa.BasicBlock, i int) bool {
					return anyEdgeFact(b, i, func(v ssa.Value, trueIdx int) bool {
						ex, ok := v.(*ssa.Extract)
						if !ok || ex.Index != 1 {
							return false
						}
						c, ok := ex.Tuple.(*ssa.Call)
						return ok && calleeFunc(c) == conv && i != trueIdx
					})
				}
				fl.solve()
				good = fl.at(in)
			}
			if good {
				r.ok("R08.9", ssaName(fn), construct, w.posOf(in.Pos()), "dominated by the failure edge of the numeric conversion", true)
			} else {
				r.bad("R08.9", ssaName(fn), construct, w.posOf(in.Pos()), "a relational operator orders its operands as strings ("+what+") on a path on which the numeric conversion has not failed: two numeric strings are then compared by spelling, so '10' < '9' is true and '-1' > '-2' is false while the same values as numbers compare the other way")
			}
		})
	}
	r.Counts["string orderings in the relational arms"] = n
	if n == 0 {
		r.ok("R08.9", ssaName(evalFn), "relational operators never order strings", "-", "no string ordering in evaluateBinaryOp or the helpers of its relational arms", false)
	}
}

// pkgVarLiteral: e denotes a package-level variable of the package whose initialiser is a
// composite literal (a read-only table): returns the literal.
func (w *World) pkgVarLiteral(e ast.Expr) *ast.CompositeLit {
	id, ok := ast.Unparen(e).(*ast.Ident)
	if !ok {
		return nil
	}
	v, ok := w.Info.Uses[id].(*types.Var)
	if !ok || v.Pkg() == nil || v.Pkg().Path() != twigPath || v.Parent() != v.Pkg().Scope() {
		return nil
	}
	for _, f := range w.Files {
		for _, d := range f.Decls {
			gd, ok := d.(*ast.GenDecl)
			if !ok || gd.Tok != token.VAR {
				continue
			}
			for _, sp := range gd.Specs {
				vs, ok := sp.(*ast.ValueSpec)
				if !ok {
					continue
				}
				for i, nm := range vs.Names {
					if w.Info.Defs[nm] == types.Object(v) && i < len(vs.Values) {
						if cl, ok := ast.Unparen(vs.Values[i]).(*ast.CompositeLit); ok {
							return cl
						}
					}
				}
			}
		}
	}
	return nil
}

// checkExpressionTextIsSource — R08.14: the text of an expression reaches the expression
// tokenizer as pieces of the template source.  Every string handed to TokenizeExpression, and
// every token value handed to AddToken, is — on every edge — a parameter, a constant, a slice or
// a trimmed form of such a value, or an element of a split of it; never a string that was built
// (strings.Join, Replace, ToLower, Fields-then-Join, concatenation, Sprintf …).  Re-assembling a
// tag's inside "with single spaces" or "in lower case" also rewrites the string literals written
// in it, so `'a  b'` means something else in a for header than in a print tag.
func checkExpressionTextIsSource(w *World, r *Report, rule string) {
	tokExpr := w.ssaFunc(w.method("ZeroAllocTokenizer", "TokenizeExpression"))
	addTok := w.ssaFunc(w.method("ZeroAllocTokenizer", "AddToken"))
	n := 0
	var built func(v ssa.Value, seen map[ssa.Value]bool, depth int) string
	built = func(v ssa.Value, seen map[ssa.Value]bool, depth int) string {
		v = unspill(v)
		if v == nil || seen[v] || depth > 12 {
			return ""
		}
		seen[v] = true
		switch x := v.(type) {
		case *ssa.BinOp:
			if b, ok := x.Type().Underlying().(*types.Basic); ok && b.Info()&types.IsString != 0 && x.Op == token.ADD {
				// a constant concatenated with a constant is folded by the compiler; anything else builds
				return "a concatenation"
			}
		case *ssa.Phi:
			for _, e := range x.Edges {
				if s := built(e, seen, depth+1); s != "" {
					return s
				}
			}
		case *ssa.Slice:
			return built(x.X, seen, depth+1)
		case *ssa.Call:
			g := x.Call.StaticCallee()
			if g == nil {
				return ""
			}
			switch g.String() {
			case "strings.Join", "strings.Replace", "strings.ReplaceAll", "strings.Map", "strings.ToLower", "strings.ToUpper", "strings.ToTitle", "strings.Title", "strings.Repeat", "strings.ToValidUTF8",
				"fmt.Sprintf", "fmt.Sprint", "fmt.Sprintln", "(*strings.Builder).String", "(*bytes.Buffer).String", "(*strings.Replacer).Replace", "strconv.Quote", "strconv.Unquote":
				return "the result of " + g.String()
			}
			if g.Pkg != nil && g.Pkg.Pkg.Path() == "strings" && strings.HasPrefix(g.Name(), "Trim") && len(x.Call.Args) > 0 {
				return built(x.Call.Args[0], seen, depth+1)
			}
			if isTwigFn(g) && len(g.Blocks) > 0 && g.Signature.Results().Len() == 1 {
				if b, ok := g.Signature.Results().At(0).Type().Underlying().(*types.Basic); ok && b.Info()&types.IsString != 0 {
					res := ""
					instrsOf(g, func(in ssa.Instruction) {
						if ret, ok := in.(*ssa.Return); ok && res == "" && len(ret.Results) == 1 {
							res = built(ret.Results[0], seen, depth+1)
						}
					})
					return res
				}
			}
		}
		return ""
	}
	for _, fn := range w.pkgFuncs() {
		instrsOf(fn, func(in ssa.Instruction) {
			c, ok := in.(ssa.CallInstruction)
			if !ok {
				return
			}
			g := c.Common().StaticCallee()
			var arg ssa.Value
			what := ""
			switch {
			case g != nil && g == tokExpr && len(c.Common().Args) >= 2:
				arg, what = c.Common().Args[1], "text handed to the expression tokenizer"
			case g != nil && g == addTok && len(c.Common().Args) >= 3:
				arg, what = c.Common().Args[2], "token value"
			default:
				return
			}
			if _, isConst := arg.(*ssa.Const); isConst {
				return
			}
			n++
			construct := what + " is a piece of the source"
			if s := built(arg, map[ssa.Value]bool{}, 0); s != "" {
				r.bad(rule, ssaName(fn), construct, w.posOf(in.Pos()), "the "+what+" is "+s+", not a piece of the template: whatever the rebuilding changes (runs of blanks, case, line breaks) is changed inside the string literals of the expression too, so the same expression means something else in this position than in a print tag")
			} else {
				r.ok(rule, ssaName(fn), construct, w.posOf(in.Pos()), "parameter, slice, trimmed or split piece on every edge", false)
			}
		})
	}
	r.floor("texts handed to the expression tokenizer / token values", n, 20)
}

// checkOperandsNotPromoted — R08.15: an operator node is never replaced by its operand without
// looking at the operator.  A function that reads the operand of a UnaryNode (or an operand of a
// BinaryNode) and lets it flow into another node (a constructor argument, a node field, a
// returned Node) also reads that node's operator — itself or through a helper it hands the node
// to.  `not c ? a : b` → `c ? b : a` written as "condition is a *UnaryNode" rewrites `-x ? a : b`
// the same way; the expression then means something else in a conditional than elsewhere.
func checkOperandsNotPromoted(w *World, r *Report) {
	n := 0
	operandOf := func(u *ssa.UnOp) (ssa.Value, string, bool) {
		if u.Op != token.MUL {
			return nil, "", false
		}
		fa, ok := u.X.(*ssa.FieldAddr)
		if !ok {
			return nil, "", false
		}
		t, f := fieldOfAddr(fa)
		if (t == "UnaryNode" && f == "node") || (t == "BinaryNode" && (f == "left" || f == "right")) {
			return fa.X, t + "." + f, true
		}
		return nil, "", false
	}
	loadsOperator := func(g *ssa.Function) bool {
		found := false
		instrsOf(g, func(in ssa.Instruction) {
			if u, ok := in.(*ssa.UnOp); ok && u.Op == token.MUL {
				if fa, ok := u.X.(*ssa.FieldAddr); ok {
					if t, f := fieldOfAddr(fa); (t == "UnaryNode" || t == "BinaryNode") && f == "operator" {
						found = true
					}
				}
			}
		})
		return found
	}
	for _, fn := range w.pkgFuncs() {
		instrsOf(fn, func(in ssa.Instruction) {
			u, ok := in.(*ssa.UnOp)
			if !ok {
				return
			}
			base, what, ok := operandOf(u)
			if !ok {
				return
			}
			// does the operand flow into another node?
			into := ""
			seen := map[ssa.Value]bool{}
			var flow func(v ssa.Value, d int)
			flow = func(v ssa.Value, d int) {
				if seen[v] || d > 6 || into != "" || v.Referrers() == nil {
					return
				}
				seen[v] = true
				for _, ref := range *v.Referrers() {
					switch x := ref.(type) {
					case *ssa.Phi:
						flow(x, d+1)
					case *ssa.MakeInterface:
						flow(x, d+1)
					case *ssa.ChangeInterface:
						flow(x, d+1)
					case *ssa.Store:
						if x.Val != v {
							continue
						}
						if fa, ok := x.Addr.(*ssa.FieldAddr); ok {
							if t, f := fieldOfAddr(fa); w.isNodeStruct(t) {
								into = "field " + t + "." + f
							}
						} else if al, ok := x.Addr.(*ssa.Alloc); ok {
							// spilled local: follow its loads
							if al.Referrers() != nil {
								for _, r2 := range *al.Referrers() {
									if l, ok := r2.(*ssa.UnOp); ok && l.Op == token.MUL {
										flow(l, d+1)
									}
								}
							}
						}
					case *ssa.Return:
						into = "the returned node"
					case ssa.CallInstruction:
						if g := x.Common().StaticCallee(); g != nil && isTwigFn(g) && strings.HasPrefix(g.Name(), "New") {
							into = "an argument of " + g.Name()
						}
					}
				}
			}
			flow(u, 0)
			if into == "" {
				return
			}
			n++
			construct := what + " flows into " + into
			// operator read on the same node here, or in a helper the node is handed to
			reads := false
			instrsOf(fn, func(in2 ssa.Instruction) {
				if l, ok := in2.(*ssa.UnOp); ok && l.Op == token.MUL {
					if fa, ok := l.X.(*ssa.FieldAddr); ok {
						if _, f := fieldOfAddr(fa); f == "operator" && sameValue(origin(fa.X), origin(base)) {
							reads = true
						}
					}
				}
				if c, ok := in2.(ssa.CallInstruction); ok {
					if g := c.Common().StaticCallee(); g != nil && isTwigFn(g) && len(g.Blocks) > 0 && loadsOperator(g) {
						for _, a := range c.Common().Args {
							if sameValue(origin(a), origin(base)) {
								reads = true
							}
						}
					}
				}
			})
			if reads {
				r.ok("R08.15", ssaName(fn), construct, w.posOf(u.Pos()), "the operator of the same node is read", true)
			} else {
				r.bad("R08.15", ssaName(fn), construct, w.posOf(u.Pos()), "the operand takes the place of the operator node although the operator is never looked at: every unary (binary) operator is treated like the one the rewrite had in mind, so `-x` or `+x` in this position is handled as if it were `not x`")
			}
		})
	}
	r.Counts["operands of operator nodes flowing into other nodes"] = n
}

// checkPostfixParsersWrapTheirOperand — R08.16: a filter applies to what it is written after.
// A parser function that is handed the node parsed so far and builds FilterNodes around it
// (`x|f|g`) returns — whenever it returns a node — that very node or one of the FilterNodes it
// built: nothing else.  Returning a different node (the operand taken out of a unary operator,
// re-wrapped after the filters were applied inside) re-associates the expression: `(-a)|abs`
// would be read as `-(a|abs)`, and parentheses would stop overriding the grouping.
func checkPostfixParsersWrapTheirOperand(w *World, r *Report) {
	reach := w.parseReachable()
	nodeT := w.lookup("Node").Type()
	filterT := w.named("FilterNode")
	n := 0
	for _, fn := range w.pkgFuncs() {
		if !reach[fn] {
			continue
		}
		var operand *ssa.Parameter
		for _, p := range fn.Params {
			if types.Identical(p.Type(), nodeT) {
				operand = p
			}
		}
		if operand == nil {
			continue
		}
		// FilterNodes built here
		var built []ssa.Value
		instrsOf(fn, func(in ssa.Instruction) {
			switch x := in.(type) {
			case *ssa.Alloc:
				if types.Identical(deref(x.Type()), filterT) && x.Heap {
					built = append(built, x)
				}
			case *ssa.Call:
				if g := x.Call.StaticCallee(); g != nil && isTwigFn(g) && g.Signature.Results().Len() >= 1 && types.Identical(deref(g.Signature.Results().At(0).Type()), filterT) && g != fn {
					built = append(built, x)
				}
			}
		})
		if len(built) == 0 {
			continue
		}
		isBuilt := func(v ssa.Value) bool {
			for _, b := range built {
				if v == b {
					return true
				}
			}
			return false
		}
		instrsOf(fn, func(in ssa.Instruction) {
			ret, ok := in.(*ssa.Return)
			if !ok {
				return
			}
			res := retResults(ret)
			if len(res) == 0 || !types.Identical(res[0].Type(), nodeT) {
				return
			}
			n++
			bad := ""
			seen := map[ssa.Value]bool{}
			var walk func(v ssa.Value, d int)
			walk = func(v ssa.Value, d int) {
				v = unspill(v)
				if seen[v] || d > 10 || bad != "" {
					return
				}
				seen[v] = true
				switch x := v.(type) {
				case *ssa.Const:
					return
				case *ssa.Parameter:
					if x == operand {
						return
					}
				case *ssa.Phi:
					for _, e := range x.Edges {
						walk(e, d+1)
					}
					return
				case *ssa.MakeInterface:
					if isBuilt(x.X) {
						return
					}
					walk(x.X, d+1)
					return
				case *ssa.ChangeInterface:
					walk(x.X, d+1)
					return
				case *ssa.Extract:
					// the result of a recursive call on the node built so far
					if c, ok := x.Tuple.(*ssa.Call); ok && c.Call.StaticCallee() == fn {
						for i, p := range fn.Params {
							if p == operand && i < len(c.Call.Args) {
								walk(c.Call.Args[i], d+1)
							}
						}
						return
					}
				}
				if isBuilt(v) {
					return
				}
				bad = describe(v) + " (" + v.String() + ")"
			}
			walk(res[0], 0)
			construct := "the node returned is the operand wrapped in the filters built here"
			if bad == "" {
				r.ok("R08.16", ssaName(fn), construct, w.posOf(ret.Pos()), "operand parameter or a FilterNode built in this function on every edge", true)
			} else {
				r.bad("R08.16", ssaName(fn), construct, w.posOf(ret.Pos()), "the function can return "+bad+", neither its operand nor a filter around it: the filters were applied to a part of the operand and the rest re-attached outside — the expression is re-associated and parentheses no longer decide the grouping")
			}
		})
	}
	r.floor("returns of filter-chain parsers", n, 1)
}

// checkTagTextConsumed — R08.17: what stands in front of a keyword is read, too.  Where a
// tokenizer function finds a keyword in a piece of tag text (p = index search in x) and hands
// the text behind it (x[p+k:]) to a tokenizing function, the text in front of it (x[:p]) is also
// taken and handed to a function: a tag whose head is cut off loses the words written there
// (`include 'a' only with {…}` without its `only`), and the rest is read as if they had never
// been written.
func checkTagTextConsumed(w *World, r *Report, rule string) {
	tokT := w.named("ZeroAllocTokenizer")
	n := 0
	isSearch := func(c *ssa.Call) (ssa.Value, bool) {
		g := c.Call.StaticCallee()
		if g == nil || len(c.Call.Args) < 2 {
			return nil, false
		}
		if b, ok := c.Type().Underlying().(*types.Basic); !ok || b.Info()&types.IsInteger == 0 {
			return nil, false
		}
		name := strings.ToLower(g.Name())
		if !strings.Contains(name, "index") {
			return nil, false
		}
		if !isString(c.Call.Args[0].Type()) {
			return nil, false
		}
		return c.Call.Args[0], true
	}
	usedByCall := func(v ssa.Value) bool {
		seen := map[ssa.Value]bool{}
		var walk func(v ssa.Value, d int) bool
		walk = func(v ssa.Value, d int) bool {
			if seen[v] || d > 6 || v.Referrers() == nil {
				return false
			}
			seen[v] = true
			for _, ref := range *v.Referrers() {
				switch x := ref.(type) {
				case *ssa.Phi:
					if walk(x, d+1) {
						return true
					}
				case *ssa.Slice:
					if walk(x, d+1) {
						return true
					}
				case *ssa.Store:
					if al, ok := x.Addr.(*ssa.Alloc); ok && al.Referrers() != nil {
						for _, r2 := range *al.Referrers() {
							if l, ok := r2.(*ssa.UnOp); ok && l.Op == token.MUL && walk(l, d+1) {
								return true
							}
						}
					}
				case *ssa.Call:
					g := x.Call.StaticCallee()
					if g != nil && g.Pkg != nil && g.Pkg.Pkg.Path() == "strings" && strings.HasPrefix(g.Name(), "Trim") {
						if walk(x, d+1) {
							return true
						}
						continue
					}
					if g != nil && isTwigFn(g) {
						return true
					}
				}
			}
			return false
		}
		return walk(v, 0)
	}
	for _, fn := range w.pkgFuncs() {
		if fn.Signature.Recv() == nil || !types.Identical(deref(fn.Signature.Recv().Type()), tokT) {
			continue
		}
		instrsOf(fn, func(in ssa.Instruction) {
			sl, ok := in.(*ssa.Slice)
			if !ok || sl.High != nil || sl.Low == nil || !isString(sl.X.Type()) {
				return
			}
			// Low = p + k with p an index search in the sliced text
			bo, ok := sl.Low.(*ssa.BinOp)
			if !ok || bo.Op != token.ADD {
				return
			}
			var p ssa.Value
			for _, cand := range []ssa.Value{bo.X, bo.Y} {
				if c, ok := unspill(cand).(*ssa.Call); ok {
					if x, ok := isSearch(c); ok && sameValue(unspill(x), unspill(sl.X)) {
						p = cand
					}
				}
			}
			if p == nil || !usedByCall(sl) {
				return
			}
			n++
			construct := "text in front of the keyword found in " + describe(sl.X) + " is read as well"
			found := false
			instrsOf(fn, func(in2 ssa.Instruction) {
				s2, ok := in2.(*ssa.Slice)
				if !ok || s2.High == nil || !sameValue(unspill(s2.X), unspill(sl.X)) {
					return
				}
				if sameValue(unspill(s2.High), unspill(p)) && usedByCall(s2) {
					found = true
				}
			})
			if found {
				r.ok(rule, ssaName(fn), construct, w.posOf(sl.Pos()), "x[:p] is taken and handed on", true)
			} else {
				r.bad(rule, ssaName(fn), construct, w.posOf(sl.Pos()), "only the text behind the keyword is tokenised; what the template wrote in front of it (option words such as `only`, `ignore missing`, a second operand) is dropped, and the tag is read as if it had not been written")
			}
		})
	}
	r.floor("keyword splits of tag text in the tokenizer", n, 2)
}

// shortCircuitSummaries: for a call h(…, n.operator, …, left, …) of a package helper that only
// compares the operator with constants and asks toBool(left), the states in which h returns:
// which operators are still possible, what toBool(left) was, and the constant bool results
// (1 true, 2 false, 0 not constant).
type scSummary struct {
	ops uint8
	lb  int8
	res []int8
}

func shortCircuitSummaries(c *ssa.Call, toBool *types.Func, isLeft func(ssa.Value) bool) ([]scSummary, bool) {
	h := c.Call.StaticCallee()
	if h == nil || !isTwigFn(h) || len(h.Blocks) == 0 || len(h.Blocks) > 40 {
		return nil, false
	}
	var opParam, leftParam *ssa.Parameter
	for i, a := range c.Call.Args {
		if i >= len(h.Params) {
			break
		}
		if _, ok := fieldLoad(unspill(a), "BinaryNode", "operator"); ok {
			opParam = h.Params[i]
		}
		if isLeft(a) {
			leftParam = h.Params[i]
		}
	}
	if opParam == nil || leftParam == nil {
		return nil, false
	}
	opBit := map[string]uint8{"and": 1, "&&": 2, "or": 4, "||": 8}
	type hst struct {
		b   *ssa.BasicBlock
		ops uint8
		lb  int8
	}
	var out []scSummary
	seen := map[hst]bool{}
	var dfs func(s hst)
	dfs = func(s hst) {
		if seen[s] {
			return
		}
		seen[s] = true
		for _, in := range s.b.Instrs {
			if ret, ok := in.(*ssa.Return); ok {
				sum := scSummary{ops: s.ops, lb: s.lb}
				for _, rv := range retResults(ret) {
					k := int8(0)
					if isConstBool(rv, true) {
						k = 1
					} else if isConstBool(rv, false) {
						k = 2
					}
					sum.res = append(sum.res, k)
				}
				out = append(out, sum)
			}
		}
		v, trueIdx, ok := ifCond(s.b)
		for i, succ := range s.b.Succs {
			n := s
			n.b = succ
			if ok {
				onTrue := i == trueIdx
				if bo, isBo := v.(*ssa.BinOp); isBo && bo.Op == token.EQL {
					var side, cst ssa.Value = bo.X, bo.Y
					if _, isC := bo.X.(*ssa.Const); isC {
						side, cst = bo.Y, bo.X
					}
					if unspill(side) == ssa.Value(opParam) {
						if cs, okc := constString(cst); okc {
							bit, known := opBit[cs]
							if onTrue {
								if known {
									n.ops &= bit
								} else {
									n.ops &= 16
								}
							} else if known {
								n.ops &^= bit
							}
							if n.ops == 0 {
								continue
							}
						}
					}
				}
				if tc, isCall := v.(*ssa.Call); isCall && calleeFunc(tc) == toBool {
					if args := callArgs(tc); len(args) == 1 && unspill(args[0]) == ssa.Value(leftParam) {
						want := int8(2)
						if onTrue {
							want = 1
						}
						if n.lb != 0 && n.lb != want {
							continue
						}
						n.lb = want
					}
				}
			}
			dfs(n)
		}
	}
	dfs(hst{b: h.Blocks[0], ops: 31})
	return out, len(out) > 0
}

// checkOneEvaluator — R08.18: operators are given their meaning in one place.  Every render-
// reachable function that compares a BinaryNode's operator with an operator constant belongs to
// the evaluator: it is EvaluateExpression or is reached from it through static calls (four levels).
// A node renderer that recognises `in` (or `==`, `and` …) in its own condition and decides it
// with its own comparison is a second evaluator: the same expression then means one thing in an
// `if` and another in a print tag.
func checkOneEvaluator(w *World, r *Report) {
	evalFn := w.ssaFunc(w.method("RenderContext", "EvaluateExpression"))
	family := map[*ssa.Function]bool{evalFn: true}
	frontier := []*ssa.Function{evalFn}
	for d := 0; d < 4; d++ {
		var next []*ssa.Function
		for _, f := range frontier {
			instrsOf(f, func(in ssa.Instruction) {
				if c, ok := in.(ssa.CallInstruction); ok {
					if g := c.Common().StaticCallee(); g != nil && isTwigFn(g) && !family[g] {
						family[g] = true
						next = append(next, g)
					}
				}
			})
			for _, a := range f.AnonFuncs {
				if !family[a] {
					family[a] = true
					next = append(next, a)
				}
			}
		}
		frontier = next
	}
	reach := w.renderOnlyReachable()
	// string parameters that are handed a BinaryNode's operator at some call site
	opParam := map[*ssa.Parameter]bool{}
	for _, fn := range w.pkgFuncs() {
		instrsOf(fn, func(in ssa.Instruction) {
			c, ok := in.(ssa.CallInstruction)
			if !ok {
				return
			}
			g := c.Common().StaticCallee()
			if g == nil || !isTwigFn(g) {
				return
			}
			for i, a := range c.Common().Args {
				if _, ok := fieldLoad(unspill(a), "BinaryNode", "operator"); ok && i < len(g.Params) {
					opParam[g.Params[i]] = true
				}
			}
		})
	}
	isOperator := func(v ssa.Value) bool {
		v = unspill(v)
		if _, ok := fieldLoad(v, "BinaryNode", "operator"); ok {
			return true
		}
		p, ok := v.(*ssa.Parameter)
		return ok && opParam[p]
	}
	n := 0
	for _, fn := range w.pkgFuncs() {
		if !reach[fn] {
			continue
		}
		site := ""
		instrsOf(fn, func(in ssa.Instruction) {
			bo, ok := in.(*ssa.BinOp)
			if !ok || (bo.Op != token.EQL && bo.Op != token.NEQ) || site != "" {
				return
			}
			for _, pr := range [][2]ssa.Value{{bo.X, bo.Y}, {bo.Y, bo.X}} {
				if isOperator(pr[0]) {
					if _, isConst := pr[1].(*ssa.Const); isConst {
						site = w.posOf(bo.Pos())
					}
				}
			}
		})
		if site == "" {
			continue
		}
		n++
		construct := "a BinaryNode's operator is interpreted by the evaluator"
		if family[fn] {
			r.ok("R08.18", ssaName(fn), construct, site, "EvaluateExpression or a function it calls", true)
		} else {
			r.bad("R08.18", ssaName(fn), construct, site, "this function recognises an operator of a BinaryNode itself although the evaluator does not call it: it gives the operator a meaning of its own (its own comparison of the operands), so the expression is worth something else in this position than where EvaluateExpression decides it")
		}
	}
	r.floor("functions interpreting a BinaryNode's operator", n, 1)
}

// checkConstructorsKeepRoles — R08.19: the left operand stays on the left.  In every function that
// builds an operator node (stores into the Node-typed fields of a BinaryNode, UnaryNode or
// ConditionalNode), each such field receives one and the same parameter on every path — never
// "left or right, whichever is not a literal".  Operands are evaluated in the order of the fields
// and `and` / `or` stop after the first: exchanging them evaluates the side the template wrote
// second even where the first one decides.
func checkConstructorsKeepRoles(w *World, r *Report) {
	nodeT := w.lookup("Node").Type()
	n := 0
	for _, fn := range w.pkgFuncs() {
		instrsOf(fn, func(in ssa.Instruction) {
			st, ok := in.(*ssa.Store)
			if !ok {
				return
			}
			fa, ok := st.Addr.(*ssa.FieldAddr)
			if !ok {
				return
			}
			t, f := fieldOfAddr(fa)
			if t != "BinaryNode" && t != "UnaryNode" && t != "ConditionalNode" {
				return
			}
			if !types.Identical(st.Val.Type(), nodeT) {
				return
			}
			// only where the stored value comes from parameters at all
			params := map[*ssa.Parameter]bool{}
			other := false
			seen := map[ssa.Value]bool{}
			var walk func(v ssa.Value, d int)
			walk = func(v ssa.Value, d int) {
				v = unspill(v)
				if v == nil || seen[v] || d > 6 {
					return
				}
				seen[v] = true
				switch x := v.(type) {
				case *ssa.Parameter:
					params[x] = true
				case *ssa.Phi:
					for _, e := range x.Edges {
						walk(e, d+1)
					}
				case *ssa.Const:
				default:
					other = true
				}
			}
			walk(st.Val, 0)
			if len(params) == 0 {
				return
			}
			n++
			construct := t + "." + f + " receives one parameter"
			if len(params) == 1 && !other {
				r.ok("R08.19", ssaName(fn), construct, w.posOf(in.Pos()), "the same parameter on every path", false)
			} else {
				var names []string
				for p := range params {
					names = append(names, p.Name())
				}
				sort.Strings(names)
				r.bad("R08.19", ssaName(fn), construct, w.posOf(in.Pos()), "the field receives "+strings.Join(names, " or ")+" depending on the path: operands change places, so they are evaluated in another order than written — the right-hand side of `and` / `or` runs although the left-hand side decides, and a failing operand fails an expression it should not have reached")
			}
		})
	}
	r.floor("operand stores in operator-node constructors", n, 3)
}

// checkStringLiteralsDecodedAlike — R08.20: a string literal is worth the same wherever it is
// parsed.  Where the parser builds a LiteralNode from the Value of a token it found to be a
// TOKEN_STRING, the value goes through a decoding function of the package if any such site does
// (the primary-expression parser decodes escape sequences): a shortcut that wraps the raw token
// value gives `'it\'s'` another value in that position — `{% set v = 'it\'s' %}` is then not equal
// to `'it\'s'` in an expression.
func checkStringLiteralsDecodedAlike(w *World, r *Report) {
	strKind, _ := w.lookup("TOKEN_STRING").(*types.Const)
	if strKind == nil {
		cannotDecide("TOKEN_STRING is not a constant")
	}
	newLit := w.fn("NewLiteralNode")
	reach := w.parseReachable()
	type site struct {
		fn      *ssa.Function
		in      ssa.Instruction
		decoder string
	}
	var sites []site
	underStringKind := func(in ssa.Instruction) bool {
		b := in.Block()
		for d := b.Idom(); d != nil; d = d.Idom() {
			c, trueIdx, ok := ifCond(d)
			if !ok {
				continue
			}
			// which way leads here?
			t, f := d.Succs[trueIdx], d.Succs[1-trueIdx]
			viaT := t == b || blockReachesAvoiding(t, b, d)
			viaF := f == b || blockReachesAvoiding(f, b, d)
			if viaT == viaF {
				continue
			}
			var facts []condFact
			expandCond(c, viaT, &facts, 0)
			for _, cf := range facts {
				bo, ok := cf.v.(*ssa.BinOp)
				if !ok || bo.Op != token.EQL || !cf.truth {
					continue
				}
				for _, side := range []ssa.Value{bo.X, bo.Y} {
					if k, ok := side.(*ssa.Const); ok && k.Value != nil && k.Value.Kind() == constant.Int && constant.Compare(k.Value, token.EQL, strKind.Val()) {
						if os.Getenv("TWIGCHECK_DEBUG") != "" {
							fmt.Fprintf(os.Stderr, "R08.20 %s: under %s (block %d, truth %v)\n", curWorld.posOf(in.Pos()), bo.String(), d.Index, viaT)
						}
						return true
					}
				}
			}
		}
		return false
	}
	for _, fn := range w.pkgFuncs() {
		if !reach[fn] {
			continue
		}
		instrsOf(fn, func(in ssa.Instruction) {
			c, ok := in.(*ssa.Call)
			if !ok || calleeFunc(c) != newLit || len(c.Call.Args) < 1 {
				return
			}
			mi, ok := c.Call.Args[0].(*ssa.MakeInterface)
			if !ok || !isString(mi.X.Type()) {
				return
			}
			// the string: Token.Value directly, or a package function applied to it
			v := unspill(mi.X)
			decoder := ""
			if call, ok := v.(*ssa.Call); ok {
				if g := call.Call.StaticCallee(); g != nil && isTwigFn(g) && len(call.Call.Args) == 1 {
					decoder = g.Name()
					v = unspill(call.Call.Args[0])
				}
			}
			fromToken := false
			for _, o := range originChain(v) {
				if _, ok := fieldLoad(o, "Token", "Value"); ok {
					fromToken = true
				}
				if fl, ok := o.(*ssa.Field); ok {
					if st, ok := fl.X.Type().Underlying().(*types.Struct); ok && st.Field(fl.Field).Name() == "Value" && isNamed(fl.X.Type(), twigPath, "Token") {
						fromToken = true
					}
				}
			}
			if !fromToken || !underStringKind(in) {
				return
			}
			sites = append(sites, site{fn, in, decoder})
		})
	}
	ref := ""
	for _, s := range sites {
		if s.decoder != "" {
			ref = s.decoder
		}
	}
	for _, s := range sites {
		construct := "string literal decoded like at the sibling sites"
		if s.decoder == ref {
			r.ok("R08.20", ssaName(s.fn), construct, w.posOf(s.in.Pos()), "through "+ref, true)
		} else {
			r.bad("R08.20", ssaName(s.fn), construct, w.posOf(s.in.Pos()), "the token's raw text becomes the literal's value here, while the expression parser decodes it with "+ref+": escape sequences (\\', \\\\, \\n) are kept verbatim in this position, so the same literal has two different values")
		}
	}
	r.floor("LiteralNodes built from string tokens", len(sites), 1)
}

// operatorNodeBuilders: functions of the package that hand out an operator node (UnaryNode,
// BinaryNode, ConditionalNode) built from Node parameters — result type is the node type, or the
// result is a Node and some return yields a value made by such a function.  Maps to the node name.
func (w *World) operatorNodeBuilders() map[*ssa.Function]string {
	out := map[*ssa.Function]string{}
	opNode := func(t types.Type) string {
		for _, n := range []string{"UnaryNode", "BinaryNode", "ConditionalNode"} {
			if _, isPtr := t.(*types.Pointer); isPtr && isNamed(t, twigPath, n) {
				return n
			}
		}
		return ""
	}
	hasNodeParam := func(fn *ssa.Function) bool {
		for _, p := range fn.Params {
			if isNamed(p.Type(), twigPath, "Node") {
				if _, isPtr := p.Type().(*types.Pointer); !isPtr {
					return true
				}
			}
		}
		return false
	}
	fns := w.pkgFuncs()
	for _, fn := range fns {
		if fn.Signature.Results().Len() != 1 || !hasNodeParam(fn) || fn.Signature.Recv() != nil {
			continue
		}
		if n := opNode(fn.Signature.Results().At(0).Type()); n != "" {
			out[fn] = n
		}
	}
	for round := 0; round < 3; round++ {
		for _, fn := range fns {
			if out[fn] != "" || fn.Signature.Results().Len() != 1 || !hasNodeParam(fn) || fn.Signature.Recv() != nil {
				continue
			}
			if !isNamed(fn.Signature.Results().At(0).Type(), twigPath, "Node") {
				continue
			}
			instrsOf(fn, func(in ssa.Instruction) {
				ret, ok := in.(*ssa.Return)
				if !ok {
					return
				}
				for _, v := range retResults(ret) {
					seen := map[ssa.Value]bool{}
					var walk func(v ssa.Value, d int)
					walk = func(v ssa.Value, d int) {
						v = unspill(v)
						if v == nil || seen[v] || d > 6 {
							return
						}
						seen[v] = true
						switch x := v.(type) {
						case *ssa.MakeInterface:
							walk(x.X, d+1)
						case *ssa.ChangeInterface:
							walk(x.X, d+1)
						case *ssa.Phi:
							for _, e := range x.Edges {
								walk(e, d+1)
							}
						case *ssa.Call:
							if g := x.Call.StaticCallee(); g != nil && out[g] != "" {
								out[fn] = out[g]
							}
						}
					}
					walk(v, 0)
				}
			})
		}
	}
	return out
}

// checkConstructorsReturnTheirNode — R08.21: an operator written in the source is an operator node
// in the tree.  A function that builds a UnaryNode, BinaryNode or ConditionalNode from operand
// parameters returns, on every path, something other than one of those operands (or a part of
// one): handing the operand back drops the operator, and with it the conversion the operator
// performs (`not not x` is a boolean, `- -x` a number, not x).
func checkConstructorsReturnTheirNode(w *World, r *Report) {
	n := 0
	builders := w.operatorNodeBuilders()
	var fns []*ssa.Function
	for fn := range builders {
		fns = append(fns, fn)
	}
	sort.Slice(fns, func(i, j int) bool { return fns[i].Name() < fns[j].Name() })
	for _, fn := range fns {
		instrsOf(fn, func(in ssa.Instruction) {
			ret, ok := in.(*ssa.Return)
			if !ok {
				return
			}
			for _, v := range retResults(ret) {
				n++
				var from *ssa.Parameter
				seen := map[ssa.Value]bool{}
				var walk func(v ssa.Value, d int)
				walk = func(v ssa.Value, d int) {
					v = unspill(v)
					if v == nil || seen[v] || d > 8 {
						return
					}
					seen[v] = true
					switch x := v.(type) {
					case *ssa.Parameter:
						if isNamed(x.Type(), twigPath, "Node") {
							from = x
						}
					case *ssa.MakeInterface:
						walk(x.X, d+1)
					case *ssa.ChangeInterface:
						walk(x.X, d+1)
					case *ssa.TypeAssert:
						walk(x.X, d+1)
					case *ssa.Extract:
						walk(x.Tuple, d+1)
					case *ssa.Phi:
						for _, e := range x.Edges {
							walk(e, d+1)
						}
					case *ssa.UnOp:
						if x.Op == token.MUL {
							if fa, ok := x.X.(*ssa.FieldAddr); ok && isNamed(x.Type(), twigPath, "Node") {
								walk(fa.X, d+1)
							}
						}
					}
				}
				walk(v, 0)
				construct := "a " + builders[fn] + " builder returns the node it builds"
				if from != nil {
					r.bad("R08.21", ssaName(fn), construct, w.posOf(ret.Pos()), "on this path the function hands back its operand "+from.Name()+" (or a part of it) instead of an operator node: the operator written in the source is not in the tree, and the result keeps the operand's type and value where the operator converts it")
				} else {
					r.ok("R08.21", ssaName(fn), construct, w.posOf(ret.Pos()), "the result is a node made here", false)
				}
			}
		})
	}
	r.floor("returns of operator-node builders", n, 3)
}
