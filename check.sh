#!/bin/sh
# usage: check.sh <property|all> <quick|thorough> [extra twigcheck flags]
# Rebuilds the checker if needed (incremental, from files on disk) and analyses /repo's
# current working tree.  Nothing under /repo is executed.
set -u
export GOFLAGS=-mod=mod GOPROXY=off
unset GOWORK 2>/dev/null || true
here=$(cd "$(dirname "$0")" && pwd)
prop=$1; tier=${2:-quick}; shift; [ $# -gt 0 ] && shift
( cd "$here/twigcheck" && go build -o "$here/bin/twigcheck" . ) || { echo "CANNOT-DECIDE property=$prop: checker build failed" >&2; exit 2; }
exec "$here/bin/twigcheck" -prop "$prop" -tier "$tier" -repo "${TWIG_REPO:-/repo}" -verif "$here" "$@"
